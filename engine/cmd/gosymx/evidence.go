package main

import (
	"bufio"
	"encoding/json"
	"fmt"
	"os"
	"os/exec"
	"path/filepath"
	"sort"
	"strings"
	"time"

	"gosymx/interp"
)

type XCheck struct {
	Solvers       map[string]int     `json:"queries_per_solver"`
	Seconds       map[string]float64 `json:"seconds_per_solver"`
	Disagreements int                `json:"disagreements"`
	Unknown       int                `json:"unknown_on_secondary"`
}

type extra struct {
	LoadS     float64
	XC        XCheck
	Solver    string
	InitStubs map[string]int
	Workers   int
	Conf      Conformance
}

// Conformance: passing paths of the engine replayed natively on the same inputs.
type Conformance struct {
	Witnesses   int      `json:"witness_paths_replayed_natively"`
	Agree       int      `json:"agree"`
	Differ      int      `json:"differ"`
	Differences []string `json:"differences,omitempty"`
	Seconds     float64  `json:"seconds"`
}

// crossCheck re-runs exported obligation queries on the other back ends.
func crossCheck(results []*interp.HarnessResult, tier, primary, workDir string) XCheck {
	xc := XCheck{Solvers: map[string]int{}, Seconds: map[string]float64{}}
	var qs []interp.ObligQuery
	for _, r := range results {
		qs = append(qs, r.ObligSMT...)
	}
	if len(qs) == 0 {
		return xc
	}
	var others []string
	for _, s := range []string{"z3", "z3-new", "cvc5"} {
		if s != primary {
			others = append(others, s)
		}
	}
	step := 10
	if tier == "thorough" {
		step = 1
	} else {
		others = others[:1]
	}
	var sel []interp.ObligQuery
	for i := 0; i < len(qs); i += step {
		sel = append(sel, qs[i])
	}
	if len(sel) > 400 {
		stride := len(sel) / 400
		var s2 []interp.ObligQuery
		for i := 0; i < len(sel); i += stride + 1 {
			s2 = append(s2, sel[i])
		}
		sel = s2
	}
	for _, sname := range others {
		t0 := time.Now()
		var argv []string
		switch sname {
		case "z3":
			argv = []string{"/usr/bin/z3", "-in", "-t:30000"}
		case "z3-new":
			argv = []string{"z3-new", "-in", "-t:30000"}
		case "cvc5":
			argv = []string{"cvc5", "--incremental", "--lang=smt2", "--tlimit-per=30000"}
		}
		var in strings.Builder
		for _, q := range sel {
			in.WriteString(q.SMT)
			in.WriteString("(reset)\n")
		}
		inp := filepath.Join(workDir, "xcheck-"+sname+".smt2")
		os.WriteFile(inp, []byte(in.String()), 0o644)
		cmd := exec.Command(argv[0], argv[1:]...)
		cmd.Stdin = strings.NewReader(in.String())
		out, _ := cmd.CombinedOutput()
		var answers []string
		sc := bufio.NewScanner(strings.NewReader(string(out)))
		sc.Buffer(make([]byte, 1<<20), 1<<24)
		for sc.Scan() {
			l := strings.TrimSpace(sc.Text())
			if l == "sat" || l == "unsat" || l == "unknown" || l == "timeout" {
				answers = append(answers, l)
			}
		}
		xc.Solvers[sname] = len(sel)
		xc.Seconds[sname] = time.Since(t0).Seconds()
		if len(answers) != len(sel) {
			xc.Unknown += len(sel) - len(answers)
			if len(answers) > len(sel) {
				answers = answers[:len(sel)]
			}
		}
		for i, a := range answers {
			want := sel[i].Result
			if a == "unknown" || a == "timeout" || want == "unknown" {
				xc.Unknown++
				continue
			}
			if a != want {
				xc.Disagreements++
				os.WriteFile(filepath.Join(workDir, fmt.Sprintf("disagree-%s-%d.smt2", sname, i)), []byte(sel[i].SMT), 0o644)
			}
		}
	}
	return xc
}

func writeEvidence(verif, prop, tier string, seed int, results []*interp.HarnessResult, ps PropSpec, wall float64, violations int, problems string, ex *extra) {
	type hsum struct {
		Harness       string         `json:"harness"`
		Paths         int            `json:"paths_completed"`
		SymbolicPaths int            `json:"paths_with_symbolic_content"`
		Dropped       int            `json:"paths_dropped_infeasible_assumption"`
		Obligations   int            `json:"obligations"`
		Discharged    int            `json:"discharged"`
		Trivial       int            `json:"discharged_concretely"`
		Feas          int            `json:"feasibility_queries"`
		Oblig         int            `json:"obligation_queries"`
		Steps         int64          `json:"ssa_instructions_executed"`
		MaxDec        int            `json:"max_decisions_on_a_path"`
		SolverS       float64        `json:"solver_seconds"`
		WallS         float64        `json:"wall_seconds"`
		Covers        map[string]int `json:"cover_points_reached"`
		Inconclusive  int            `json:"inconclusive"`
		Violations    int            `json:"violations"`
		KnownHits     int            `json:"known_finding_hits"`
		Panics        map[string]int `json:"tolerated_panics,omitempty"`
	}
	var hsums []hsum
	funcs := map[string]int64{}
	intr := map[string]int{}
	assum := map[string]bool{}
	var samples []interface{}
	totalOblig, totalDis, evals, distinct := 0, 0, 0, 0
	solverS := 0.0
	for _, r := range results {
		hsums = append(hsums, hsum{r.Name, r.Paths, r.SymbolicPaths, r.Aborted, r.Obligations, r.Discharged, r.TrivialOblig, r.Feasibility, r.ObligQueries,
			r.Steps, r.MaxDecisions, r.SolverTime.Seconds(), r.Wall.Seconds(), r.CoverCount, len(r.Inconclusive), len(r.Violations), len(r.KnownHits), r.Panics})
		for k, v := range r.Funcs {
			funcs[k] += v
		}
		for k, v := range r.Intrinsics {
			intr[k] += v
		}
		for k := range r.Assumptions {
			assum[k] = true
		}
		totalOblig += r.Obligations
		totalDis += r.Discharged
		evals += r.ObligQueries + r.TrivialOblig + r.ImplicitNoPanic
		distinct += r.SymbolicPaths
		solverS += r.SolverTime.Seconds()
		var labels []string
		for l := range r.Covers {
			labels = append(labels, l)
		}
		sort.Strings(labels)
		for i, l := range labels {
			if i >= 4 {
				break
			}
			samples = append(samples, map[string]interface{}{"harness": r.Name, "cover_point": l, "witness_model": trimModel(r.Covers[l])})
		}
	}
	var fxFuncs, depFuncs []string
	for k := range funcs {
		if strings.Contains(k, "functionx/fx-core") && !strings.Contains(k, "zzverif") && !strings.Contains(k, ".Verif") {
			fxFuncs = append(fxFuncs, fmt.Sprintf("%s (%d instr)", k, funcs[k]))
		} else {
			depFuncs = append(depFuncs, k)
		}
	}
	sort.Strings(fxFuncs)
	sort.Strings(depFuncs)
	var intrNames []string
	for k := range intr {
		intrNames = append(intrNames, k)
	}
	sort.Strings(intrNames)
	assumptions := []string{}
	for k := range assum {
		assumptions = append(assumptions, k)
	}
	sort.Strings(assumptions)
	for _, s := range ps.Stubs {
		assumptions = append(assumptions, "stub: "+s)
	}
	for _, s := range ps.Outside {
		assumptions = append(assumptions, "outside the claim: "+s)
	}
	if len(samples) == 0 {
		samples = append(samples, map[string]interface{}{"note": "no cover witness recorded"})
	}
	expl := ps.Explanation + " Decided by symbolic execution of the current /repo SSA (regenerated on this run) with an SMT solver; result holds only within the listed bounds and under the listed stubs/assumptions."
	if problems != "" {
		expl += " THIS RUN WAS NOT CLEAN: " + problems
	}
	cov := map[string]interface{}{
		"explanation":         expl,
		"evaluations":         evals,
		"distinct_nontrivial": distinct,
		"rule":                "evaluations = obligations decided (solver obligation queries + obligations whose condition folded to a concrete true + one implicit no-panic obligation per completed path); distinct_nontrivial = completed execution paths that carry at least one symbolic input or symbolic branch decision (each path has a distinct decision sequence)",
		"samples":             samples,
		"obligations":         totalOblig,
		"discharged":          totalDis,
		"bounds":              ps.Bounds,
		"harnesses":           hsums,
		"functions_encoded":   fxFuncs,
		"dependency_functions_executed_from_source": len(depFuncs),
		"intrinsics_hit": intrNames,
		"solver_seconds": solverS,
	}
	if ex != nil {
		cov["primary_solver"] = ex.Solver
		cov["cross_check"] = ex.XC
		cov["load_seconds"] = ex.LoadS
		cov["workers"] = ex.Workers
		cov["engine_vs_native_conformance"] = ex.Conf
		var stubs []string
		for k := range ex.InitStubs {
			stubs = append(stubs, k)
		}
		sort.Strings(stubs)
		cov["body_less_functions_stubbed_during_package_init"] = stubs
	}
	ev := map[string]interface{}{
		"property_id": prop,
		"tier":        tier,
		"seed":        seed,
		"level":       "other",
		"coverage":    cov,
		"assumptions": assumptions,
		"wall_s":      wall,
		"violations":  violations,
	}
	bz, _ := json.MarshalIndent(ev, "", " ")
	os.MkdirAll(filepath.Join(verif, "evidence"), 0o755)
	os.WriteFile(filepath.Join(verif, "evidence", prop+".json"), bz, 0o644)
}

func trimModel(m map[string]string) map[string]string {
	if len(m) <= 24 {
		return m
	}
	var keys []string
	for k := range m {
		keys = append(keys, k)
	}
	sort.Strings(keys)
	out := map[string]string{}
	for _, k := range keys[:24] {
		out[k] = m[k]
	}
	out["..."] = fmt.Sprintf("%d more variables", len(m)-24)
	return out
}
