// gosymx: bounded symbolic checking of fx-core properties over the Go SSA of /repo.
package main

import (
	"encoding/json"
	"flag"
	"fmt"
	"os"
	"os/exec"
	"path/filepath"
	"sort"
	"strings"
	"time"

	"gosymx/interp"
)

type HarnessSpec struct {
	Pkg      string   `json:"pkg"`  // directory relative to /repo, e.g. x/crosschain/types
	Func     string   `json:"func"` // harness function name
	Tiers    []string `json:"tiers,omitempty"`
	Covers   []string `json:"covers,omitempty"` // cover labels that must be reached (vacuity guard)
	PanicOK  bool     `json:"panic_ok,omitempty"`
	What     string   `json:"what,omitempty"`
	MaxPaths int      `json:"max_paths,omitempty"`
	MaxSteps int64    `json:"max_steps,omitempty"`
	MaxSecs  int      `json:"max_seconds,omitempty"` // wall-clock budget of this harness (quick tier; x6 in thorough); exceeding it is a path/time limit, not a pass
}

type PropSpec struct {
	Title       string        `json:"title"`
	Harnesses   []HarnessSpec `json:"harnesses"`
	Bounds      []string      `json:"bounds"`
	Outside     []string      `json:"outside"`
	Stubs       []string      `json:"stubs"`
	Explanation string        `json:"explanation"`
	Pre         []string      `json:"pre,omitempty"` // pre-checks (shell commands run in /verif) that must succeed
}

type Registry struct {
	SourceRoots []string            `json:"source_roots"`
	InitPkgs    []string            `json:"init_pkgs"`
	Props       map[string]PropSpec `json:"props"`
}

type KnownFinding struct {
	Property string `json:"property"`
	ID       string `json:"id"`
	Harness  string `json:"harness"`
	Label    string `json:"label"`
	What     string `json:"what"`
}

type KnownFile struct {
	Findings []KnownFinding `json:"findings"`
	Fixed    []string       `json:"fixed"`
}

const modPath = "github.com/functionx/fx-core/v8"

func main() {
	repo := flag.String("repo", "/repo", "repository root")
	verif := flag.String("verif", "/verif", "verification root")
	prop := flag.String("prop", "", "property id")
	tier := flag.String("tier", "quick", "quick|thorough")
	only := flag.String("harness", "", "run only this harness function")
	workers := flag.Int("workers", 16, "parallel workers")
	solver := flag.String("solver", "z3-new", "primary solver: z3|z3-new|cvc5")
	trace := flag.Bool("trace", false, "trace instructions")
	noReplay := flag.Bool("noreplay", false, "do not replay counterexamples natively")
	witnessN := flag.Int("witnesses", -1, "passing-path witnesses per harness replayed natively for conformance (-1: none quick, 10 thorough)")
	smtlog := flag.Bool("smtlog", false, "log solver dialogue under work/")
	replayPath := flag.String("replay", "", "replay a stored counterexample file natively and exit")
	noEvidence := flag.Bool("noevidence", false, "do not write the evidence file")
	flag.Parse()
	start := time.Now()

	var reg Registry
	mustReadJSON(filepath.Join(*verif, "harness", "registry.json"), &reg)
	var known KnownFile
	if bz, err := os.ReadFile(filepath.Join(*verif, "known_findings.json")); err == nil {
		if err := json.Unmarshal(bz, &known); err != nil {
			fatal(3, "known_findings.json: %v", err)
		}
	}

	if *replayPath != "" {
		os.Exit(doReplayFile(*repo, *verif, reg, *replayPath))
	}

	ps, ok := reg.Props[*prop]
	if !ok {
		fatal(3, "unknown property %q", *prop)
	}
	seed := 0
	fmt.Sscan(os.Getenv("VERIF_SEED"), &seed)

	workDir := filepath.Join(*verif, "work", *prop)
	os.MkdirAll(workDir, 0o755)
	os.MkdirAll(filepath.Join(*verif, "replays"), 0o755)
	os.MkdirAll(filepath.Join(*verif, "evidence"), 0o755)

	// pre-checks
	for _, pc := range ps.Pre {
		cmd := exec.Command("bash", "-c", pc)
		cmd.Dir = *verif
		out, err := cmd.CombinedOutput()
		if err != nil {
			fmt.Printf("INCONCLUSIVE property=%s pre-check failed: %s\n%s\n", *prop, pc, out)
			os.Exit(3)
		}
	}

	overlay, err := buildOverlay(*repo, *verif)
	if err != nil {
		fatal(3, "overlay: %v", err)
	}
	// roots
	rootSet := map[string]bool{}
	var hs []HarnessSpec
	for _, h := range ps.Harnesses {
		if *only != "" && h.Func != *only {
			continue
		}
		if len(h.Tiers) > 0 && !contains(h.Tiers, *tier) {
			continue
		}
		hs = append(hs, h)
		rootSet[modPath+"/"+h.Pkg] = true
	}
	if len(hs) == 0 {
		fatal(3, "no harness selected")
	}
	rootSet[modPath+"/zzverif/rt"] = true
	if _, err := os.Stat(filepath.Join(*verif, "models")); err == nil {
		if ents, _ := os.ReadDir(filepath.Join(*verif, "models")); len(ents) > 0 {
			rootSet[modPath+"/zzverif/models"] = true
		}
	}
	for _, r := range reg.SourceRoots {
		rootSet[r] = true
	}
	var roots []string
	for r := range rootSet {
		roots = append(roots, r)
	}
	sort.Strings(roots)

	tLoad := time.Now()
	sess, _, err := interp.Load(interp.LoadConfig{
		RepoDir: *repo, Overlay: overlay, Patterns: roots, AutoRootPrefix: modPath,
		Env: []string{"GOFLAGS=-mod=mod", "GOPROXY=off", "GOSUMDB=off", "GOTOOLCHAIN=local", "VERIF_TIER=" + *tier},
	})
	if err != nil {
		fmt.Printf("INCONCLUSIVE property=%s cannot load/type-check /repo with harnesses: %v\n", *prop, err)
		writeEvidence(*verif, *prop, *tier, seed, nil, ps, time.Since(start).Seconds(), 0, "load failure: "+err.Error(), nil)
		os.Exit(3)
	}
	loadS := time.Since(tLoad).Seconds()
	fmt.Printf("loaded %d root patterns in %.1fs\n", len(roots), loadS)
	interp.SetTier(*tier)

	// init packages: harness packages (their init pulls in dependencies' init transitively)
	for _, h := range hs {
		p := sess.Prog.ImportedPackage(modPath + "/" + h.Pkg)
		if p == nil {
			fatal(3, "package %s not in program", h.Pkg)
		}
		already := false
		for _, q := range sess.InitPkg {
			if q == p {
				already = true
			}
		}
		if !already {
			sess.InitPkg = append(sess.InitPkg, p)
		}
	}

	knownIDs := map[string]bool{}
	for _, k := range known.Findings {
		if k.Property == *prop {
			knownIDs[k.ID] = true
		}
	}

	timeout := 20000
	if *tier == "thorough" {
		timeout = 120000
	}
	var results []*interp.HarnessResult
	var harnessPkgs []string
	nativeTier = *tier
	nWit := *witnessN
	if nWit < 0 {
		nWit = 0
		if *tier == "thorough" {
			nWit = 10
		}
	}
	exit := 0
	violations := 0
	var problems []string
	knownSeen := map[string]string{}
	for _, h := range hs {
		p := sess.Prog.ImportedPackage(modPath + "/" + h.Pkg)
		fn := p.Func(h.Func)
		if fn == nil {
			fatal(3, "harness %s.%s not found", h.Pkg, h.Func)
		}
		opt := interp.Options{Workers: *workers, SolverName: *solver, TimeoutMs: timeout, MaxSteps: 20_000_000,
			MaxPaths: 200000, MaxDecisions: 4000, Known: knownIDs, Trace: *trace, PanicOK: h.PanicOK, KeepSMT: true, Witnesses: nWit}
		if h.MaxPaths > 0 {
			opt.MaxPaths = h.MaxPaths
		}
		if h.MaxSteps > 0 {
			opt.MaxSteps = h.MaxSteps
		}
		if h.MaxSecs > 0 {
			secs := h.MaxSecs
			if *tier == "thorough" {
				secs *= 6
			}
			opt.Deadline = time.Now().Add(time.Duration(secs) * time.Second)
		}
		if *smtlog {
			opt.LogDir = workDir
		}
		if *trace {
			opt.Workers = 1
		}
		res, err := sess.Explore(fn, opt)
		interp.DumpForkProfile()
		if err != nil {
			fmt.Printf("INCONCLUSIVE property=%s harness=%s engine error: %v\n", *prop, h.Func, err)
			problems = append(problems, err.Error())
			exit = 3
			if res != nil {
				results = append(results, res)
				harnessPkgs = append(harnessPkgs, h.Pkg)
			}
			continue
		}
		results = append(results, res)
		harnessPkgs = append(harnessPkgs, h.Pkg)
		fmt.Printf("harness %-40s paths=%d (symbolic %d, dropped %d) obligations=%d discharged=%d violations=%d inconclusive=%d feas-queries=%d oblig-queries=%d steps=%d solver=%.1fs wall=%.1fs\n",
			h.Func, res.Paths, res.SymbolicPaths, res.Aborted, res.Obligations, res.Discharged, len(res.Violations), len(res.Inconclusive),
			res.Feasibility, res.ObligQueries, res.Steps, res.SolverTime.Seconds(), res.Wall.Seconds())
		for _, kh := range res.KnownHits {
			if _, seen := knownSeen[kh.ID]; !seen {
				knownSeen[kh.ID] = kh.Label
			}
		}
		if res.PathLimitHit {
			fmt.Printf("INCONCLUSIVE property=%s harness=%s path/time limit reached before exhausting the harness\n", *prop, h.Func)
			problems = append(problems, h.Func+": path limit")
			if exit == 0 {
				exit = 3
			}
		}
		if res.SolverErrors > 0 {
			fmt.Printf("INCONCLUSIVE property=%s harness=%s solver reported %d errors\n", *prop, h.Func, res.SolverErrors)
			problems = append(problems, h.Func+": solver errors")
			if exit == 0 {
				exit = 3
			}
		}
		seenInc := map[string]bool{}
		for _, inc := range res.Inconclusive {
			key := inc.Why + inc.Pos
			if seenInc[key] {
				continue
			}
			seenInc[key] = true
			if len(seenInc) <= 12 {
				fmt.Printf("INCONCLUSIVE property=%s harness=%s %s @ %s\n", *prop, h.Func, inc.Why, inc.Pos)
			}
			problems = append(problems, h.Func+": "+inc.Why)
			if exit == 0 {
				exit = 3
			}
		}
		for _, c := range h.Covers {
			if res.CoverCount[c] == 0 {
				fmt.Printf("VACUOUS property=%s harness=%s cover point %q not reached\n", *prop, h.Func, c)
				problems = append(problems, h.Func+": cover "+c+" not reached")
				if exit == 0 {
					exit = 3
				}
			}
		}
		// violations: replay natively
		seenV := map[string]bool{}
		for _, v := range res.Violations {
			key := v.Label
			if seenV[key] {
				continue
			}
			seenV[key] = true
			file := filepath.Join(*verif, "replays", fmt.Sprintf("%s-%s-%s.json", *prop, h.Func, shortHash(v.Label)))
			bz, _ := json.MarshalIndent(map[string]interface{}{"property": *prop, "harness": v.Harness, "pkg": h.Pkg, "label": v.Label,
				"kind": v.Kind, "model": v.Model, "pos": v.Pos, "detail": v.Detail, "tier": *tier}, "", " ")
			os.WriteFile(file, bz, 0o644)
			if *noReplay {
				fmt.Printf("VIOLATION property=%s replay=%s (not replayed) label=%q\n", *prop, file, v.Label)
				violations++
				exit = 1
				continue
			}
			ok, rep := replayNative(*repo, *verif, reg, h.Pkg, file)
			if ok {
				fmt.Printf("counterexample reproduced natively: %s\n", rep)
				fmt.Printf("VIOLATION property=%s replay=%s\n", *prop, file)
				violations++
				exit = 1
			} else {
				fmt.Printf("SPURIOUS property=%s harness=%s label=%q model does not reproduce natively (%s): encoding/model error, file %s\n", *prop, h.Func, v.Label, rep, file)
				problems = append(problems, h.Func+": spurious counterexample "+v.Label)
				if exit == 0 {
					exit = 3
				}
			}
		}
	}
	// known findings
	for _, k := range known.Findings {
		if k.Property != *prop {
			continue
		}
		if lbl, ok := knownSeen[k.ID]; ok {
			fmt.Printf("KNOWN-FINDING: property=%s %s [%s; assertion %q]\n", *prop, k.What, k.ID, lbl)
		}
	}
	// conformance: replay witnesses of passing paths natively
	conf := Conformance{}
	if nWit > 0 && !*noReplay {
		type wrec struct {
			Harness string            `json:"harness"`
			Model   map[string]string `json:"model"`
			Covers  []string          `json:"covers"`
		}
		byPkg := map[string][]wrec{}
		for k, res := range results {
			if k >= len(harnessPkgs) {
				break
			}
			for _, w := range res.Witnesses {
				byPkg[harnessPkgs[k]] = append(byPkg[harnessPkgs[k]], wrec{Harness: res.Name, Model: w.Model, Covers: w.Covers})
			}
		}
		var pkgs []string
		for pk := range byPkg {
			pkgs = append(pkgs, pk)
		}
		sort.Strings(pkgs)
		t0 := time.Now()
		for _, pk := range pkgs {
			file := filepath.Join(workDir, "witnesses_"+strings.ReplaceAll(pk, "/", "_")+".json")
			bz, _ := json.Marshal(byPkg[pk])
			os.WriteFile(file, bz, 0o644)
			agree, differ, diffs, err := witnessNative(*repo, *verif, reg, pk, file)
			if err != nil {
				fmt.Printf("INCONCLUSIVE property=%s conformance replay of package %s did not run: %v\n", *prop, pk, err)
				problems = append(problems, "conformance replay failed for "+pk)
				if exit == 0 {
					exit = 3
				}
				continue
			}
			conf.Witnesses += agree + differ
			conf.Agree += agree
			conf.Differ += differ
			for _, d := range diffs {
				fmt.Printf("CONFORMANCE-MISMATCH property=%s %s\n", *prop, d)
				conf.Differences = append(conf.Differences, d)
			}
		}
		conf.Seconds = time.Since(t0).Seconds()
		if conf.Differ > 0 {
			problems = append(problems, fmt.Sprintf("engine and native run differ on %d witness paths", conf.Differ))
			if exit == 0 {
				exit = 3
			}
		}
		fmt.Printf("conformance: %d passing-path witnesses replayed natively, %d agree, %d differ (%.1fs)\n", conf.Witnesses, conf.Agree, conf.Differ, conf.Seconds)
	}
	// cross-check obligation queries on other solvers
	xc := crossCheck(results, *tier, *solver, workDir)
	if xc.Disagreements > 0 {
		fmt.Printf("ENGINE-ERROR property=%s solvers disagree on %d obligation queries\n", *prop, xc.Disagreements)
		if exit == 0 {
			exit = 3
		}
		problems = append(problems, "solver disagreement")
	}
	wall := time.Since(start).Seconds()
	if !*noEvidence {
		writeEvidence(*verif, *prop, *tier, seed, results, ps, wall, violations, strings.Join(problems, "; "), &extra{LoadS: loadS, XC: xc, Solver: *solver, InitStubs: sess.InitStubs, Workers: *workers, Conf: conf})
	}
	switch exit {
	case 0:
		fmt.Printf("OK property=%s tier=%s: every obligation discharged within the stated bounds (%.1fs)\n", *prop, *tier, wall)
	case 1:
		fmt.Printf("FAIL property=%s tier=%s (%d violations)\n", *prop, *tier, violations)
	default:
		fmt.Printf("UNDECIDED property=%s tier=%s: %s\n", *prop, *tier, strings.Join(uniqStrings(problems), "; "))
	}
	os.Exit(exit)
}

func uniqStrings(in []string) []string {
	seen := map[string]bool{}
	var out []string
	for _, s := range in {
		if !seen[s] {
			seen[s] = true
			out = append(out, s)
		}
	}
	if len(out) > 8 {
		out = append(out[:8], fmt.Sprintf("... %d more", len(out)-8))
	}
	return out
}

func contains(xs []string, x string) bool {
	for _, y := range xs {
		if y == x {
			return true
		}
	}
	return false
}

func shortHash(s string) string {
	var h uint32 = 2166136261
	for i := 0; i < len(s); i++ {
		h ^= uint32(s[i])
		h *= 16777619
	}
	return fmt.Sprintf("%08x", h)
}

func fatal(code int, f string, a ...interface{}) {
	fmt.Printf("ENGINE-ERROR "+f+"\n", a...)
	os.Exit(code)
}

func mustReadJSON(p string, v interface{}) {
	bz, err := os.ReadFile(p)
	if err != nil {
		fatal(3, "%v", err)
	}
	if err := json.Unmarshal(bz, v); err != nil {
		fatal(3, "%s: %v", p, err)
	}
}

// overlayFiles maps virtual /repo paths to real files under /verif.
func overlayFiles(repo, verif string) (map[string]string, error) {
	m := map[string]string{}
	add := func(srcDir, dstDir, prefix string) error {
		ents, err := os.ReadDir(srcDir)
		if err != nil {
			return nil
		}
		for _, e := range ents {
			if e.IsDir() || !strings.HasSuffix(e.Name(), ".go") {
				continue
			}
			m[filepath.Join(dstDir, prefix+e.Name())] = filepath.Join(srcDir, e.Name())
		}
		return nil
	}
	add(filepath.Join(verif, "rt"), filepath.Join(repo, "zzverif", "rt"), "")
	add(filepath.Join(verif, "models"), filepath.Join(repo, "zzverif", "models"), "")
	add(filepath.Join(verif, "rtsig"), filepath.Join(repo, "zzverif", "rtsig"), "")
	hroot := filepath.Join(verif, "harness")
	err := filepath.Walk(hroot, func(p string, info os.FileInfo, err error) error {
		if err != nil || info.IsDir() || !strings.HasSuffix(p, ".go") {
			return nil
		}
		rel, _ := filepath.Rel(hroot, filepath.Dir(p))
		m[filepath.Join(repo, rel, "zz_verif_"+filepath.Base(p))] = p
		return nil
	})
	return m, err
}

func buildOverlay(repo, verif string) (map[string][]byte, error) {
	files, err := overlayFiles(repo, verif)
	if err != nil {
		return nil, err
	}
	ov := map[string][]byte{}
	for virt, real := range files {
		bz, err := os.ReadFile(real)
		if err != nil {
			return nil, err
		}
		ov[virt] = bz
	}
	return ov, nil
}

// replayNative runs the harness natively (go test -overlay) on the model in file.
func replayNative(repo, verif string, reg Registry, pkg, file string) (bool, string) {
	ok, rep, _ := runNativeDriver(repo, verif, reg, pkg, "^TestVerifReplay$", "VERIF_REPLAY="+file)
	return ok, rep
}

// witnessNative replays passing-path witnesses of one package natively (conformance of the
// engine with the compiled code); returns agree / differ counts and the difference lines.
func witnessNative(repo, verif string, reg Registry, pkg, file string) (agree, differ int, diffs []string, err error) {
	_, _, txt := runNativeDriver(repo, verif, reg, pkg, "^TestVerifWitness$", "VERIF_WITNESSES="+file)
	found := false
	for _, l := range strings.Split(txt, "\n") {
		if i := strings.Index(l, "VERIF-WITNESS-DIFF "); i >= 0 {
			diffs = append(diffs, strings.TrimSpace(l[i+len("VERIF-WITNESS-DIFF "):]))
		} else if i := strings.Index(l, "VERIF-WITNESS agree="); i >= 0 {
			fmt.Sscanf(strings.TrimSpace(l[i:]), "VERIF-WITNESS agree=%d differ=%d", &agree, &differ)
			found = true
		}
	}
	if !found {
		tail := txt
		if len(tail) > 1200 {
			tail = tail[len(tail)-1200:]
		}
		return 0, 0, nil, fmt.Errorf("witness run failed: %s", tail)
	}
	return agree, differ, diffs, nil
}

// nativeTier is the tier the native replays run under (the harness bounds depend on it).
var nativeTier = "quick"

func runNativeDriver(repo, verif string, reg Registry, pkg, run, env string) (bool, string, string) {
	files, err := overlayFiles(repo, verif)
	if err != nil {
		return false, err.Error(), ""
	}
	// generated test driver listing every harness function of the package
	var names []string
	seen := map[string]bool{}
	for _, ps := range reg.Props {
		for _, h := range ps.Harnesses {
			if h.Pkg == pkg && !seen[h.Func] {
				seen[h.Func] = true
				names = append(names, h.Func)
			}
		}
	}
	sort.Strings(names)
	pkgName, err := packageName(filepath.Join(repo, pkg))
	if err != nil {
		return false, err.Error(), ""
	}
	var sb strings.Builder
	fmt.Fprintf(&sb, "package %s\n\nimport (\n\t\"testing\"\n\t\"%s/zzverif/rt\"\n)\n\n", pkgName, modPath)
	sb.WriteString("func TestVerifReplay(t *testing.T) {\n\tok, rep := rt.ReplayMain(map[string]func(){\n")
	for _, n := range names {
		fmt.Fprintf(&sb, "\t\t%q: %s,\n", n, n)
	}
	sb.WriteString("\t})\n\tt.Log(\"VERIF-REPLAY \" + rep)\n\tif ok {\n\t\tt.Fatal(\"VERIF-REPLAY-REPRODUCED\")\n\t}\n}\n")
	sb.WriteString("\nfunc TestVerifWitness(t *testing.T) {\n\tagree, differ, lines := rt.WitnessMain(map[string]func(){\n")
	for _, n := range names {
		fmt.Fprintf(&sb, "\t\t%q: %s,\n", n, n)
	}
	sb.WriteString("\t})\n\tfor _, l := range lines {\n\t\tt.Log(\"VERIF-WITNESS-DIFF \" + l)\n\t}\n\tt.Logf(\"VERIF-WITNESS agree=%d differ=%d\", agree, differ)\n}\n")
	work := filepath.Join(verif, "work", "replay")
	os.MkdirAll(work, 0o755)
	drv := filepath.Join(work, "driver_"+strings.ReplaceAll(pkg, "/", "_")+"_test.go")
	os.WriteFile(drv, []byte(sb.String()), 0o644)
	files[filepath.Join(repo, pkg, "zz_verif_replay_test.go")] = drv
	ovj, _ := json.Marshal(map[string]interface{}{"Replace": files})
	ovp := filepath.Join(work, "overlay.json")
	os.WriteFile(ovp, ovj, 0o644)
	cmd := exec.Command("go", "test", "-count=1", "-vet=off", "-overlay="+ovp, "-run", run, "-v", "./"+pkg+"/")
	cmd.Dir = repo
	cmd.Env = append(os.Environ(), "GOFLAGS=-mod=mod", "GOPROXY=off", "GOSUMDB=off", "GOTOOLCHAIN=local", "VERIF_TIER="+nativeTier, env)
	out, _ := cmd.CombinedOutput()
	txt := string(out)
	rep := ""
	for _, l := range strings.Split(txt, "\n") {
		if i := strings.Index(l, "VERIF-REPLAY "); i >= 0 {
			rep = strings.TrimSpace(l[i+len("VERIF-REPLAY "):])
		}
	}
	if strings.Contains(txt, "VERIF-REPLAY-REPRODUCED") {
		return true, rep, txt
	}
	if rep == "" {
		tail := txt
		if len(tail) > 1500 {
			tail = tail[len(tail)-1500:]
		}
		rep = "replay run failed: " + tail
	}
	return false, rep, txt
}

func packageName(dir string) (string, error) {
	ents, err := os.ReadDir(dir)
	if err != nil {
		return "", err
	}
	for _, e := range ents {
		if strings.HasSuffix(e.Name(), ".go") && !strings.HasSuffix(e.Name(), "_test.go") {
			bz, _ := os.ReadFile(filepath.Join(dir, e.Name()))
			for _, l := range strings.Split(string(bz), "\n") {
				l = strings.TrimSpace(l)
				if strings.HasPrefix(l, "package ") {
					return strings.Fields(l)[1], nil
				}
			}
		}
	}
	return "", fmt.Errorf("no package clause in %s", dir)
}

func doReplayFile(repo, verif string, reg Registry, file string) int {
	var r struct {
		Property string `json:"property"`
		Pkg      string `json:"pkg"`
		Tier     string `json:"tier"`
	}
	mustReadJSON(file, &r)
	if r.Tier != "" {
		nativeTier = r.Tier
	}
	ok, rep := replayNative(repo, verif, reg, r.Pkg, file)
	fmt.Println(rep)
	if ok {
		fmt.Printf("VIOLATION property=%s replay=%s\n", r.Property, file)
		return 1
	}
	return 0
}
