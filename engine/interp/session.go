package interp

// Loading /repo (with overlay) into an SSA program.

import (
	"fmt"
	"go/ast"
	"go/parser"
	"go/token"
	"go/types"
	"os"
	"path/filepath"
	"strconv"
	"strings"
	"sync"

	"golang.org/x/tools/go/packages"
	"golang.org/x/tools/go/ssa"
	"golang.org/x/tools/go/ssa/ssautil"
)

type LoadConfig struct {
	RepoDir        string
	Overlay        map[string][]byte
	Patterns       []string // packages to load from source (roots)
	Env            []string
	AutoRootPrefix string // packages with this import-path prefix reachable from Patterns are loaded from source too
}

// Load builds the SSA program. Only root packages have function bodies.
func Load(cfg LoadConfig) (*Session, []*packages.Package, error) {
	pcfg := &packages.Config{
		Mode: packages.NeedName | packages.NeedFiles | packages.NeedCompiledGoFiles | packages.NeedImports |
			packages.NeedTypes | packages.NeedTypesSizes | packages.NeedSyntax | packages.NeedTypesInfo | packages.NeedDeps,
		Dir:     cfg.RepoDir,
		Overlay: cfg.Overlay,
		Env:     append(os.Environ(), cfg.Env...),
	}
	// NeedDeps together with NeedSyntax would type-check every dependency with bodies; emulate
	// LoadSyntax (bodies only for roots) by dropping NeedDeps' body requirement: go/packages
	// type-checks non-root packages with IgnoreFuncBodies when NeedDeps is not set.
	// phase 1: find the fx-core packages reachable from the requested roots; they all become roots
	pre := &packages.Config{Mode: packages.NeedName | packages.NeedImports | packages.NeedDeps, Dir: cfg.RepoDir, Overlay: cfg.Overlay, Env: pcfg.Env}
	if cfg.AutoRootPrefix != "" {
		pp, err := packages.Load(pre, cfg.Patterns...)
		if err != nil {
			return nil, nil, err
		}
		have := map[string]bool{}
		for _, p := range cfg.Patterns {
			have[p] = true
		}
		packages.Visit(pp, nil, func(p *packages.Package) {
			if strings.HasPrefix(p.PkgPath, cfg.AutoRootPrefix) && !have[p.PkgPath] {
				have[p.PkgPath] = true
				cfg.Patterns = append(cfg.Patterns, p.PkgPath)
			}
		})
	}
	pcfg.Mode = packages.LoadSyntax
	initial, err := packages.Load(pcfg, cfg.Patterns...)
	if err != nil {
		return nil, nil, err
	}
	var errs []string
	packages.Visit(initial, nil, func(p *packages.Package) {
		for _, e := range p.Errors {
			errs = append(errs, e.Error())
		}
	})
	if len(errs) > 0 {
		if len(errs) > 20 {
			errs = errs[:20]
		}
		return nil, initial, fmt.Errorf("package load errors:\n%s", strings.Join(errs, "\n"))
	}
	prog, pkgs := ssautil.Packages(initial, ssa.InstantiateGenerics)
	for _, p := range pkgs {
		if p != nil {
			p.Build()
		}
	}
	var sizes types.Sizes = &types.StdSizes{WordSize: 8, MaxAlign: 8}
	s := &Session{Prog: prog, Sizes: sizes, PkgDirs: map[string]string{}}
	packages.Visit(initial, nil, func(p *packages.Package) {
		if len(p.GoFiles) > 0 {
			s.PkgDirs[p.PkgPath] = filepath.Dir(p.GoFiles[0])
		}
	})
	for _, p := range pkgs {
		if p != nil {
			s.Pkgs = append(s.Pkgs, p)
		}
	}
	return s, initial, nil
}

var errVarMu sync.Mutex

// simpleErrVar parses the source files of a dependency package (regenerated on every run) and
// returns the message of a package-level `var name = errors.New("message")`.
func (s *Session) simpleErrVar(pkgPath, name string) (string, bool) {
	errVarMu.Lock()
	defer errVarMu.Unlock()
	if s.errVars == nil {
		s.errVars = map[string]map[string]string{}
	}
	tbl, ok := s.errVars[pkgPath]
	if !ok {
		tbl = map[string]string{}
		s.errVars[pkgPath] = tbl
		dir := s.PkgDirs[pkgPath]
		matches, _ := filepath.Glob(filepath.Join(dir, "*.go"))
		fset := token.NewFileSet()
		for _, f := range matches {
			if strings.HasSuffix(f, "_test.go") || dir == "" {
				continue
			}
			af, err := parser.ParseFile(fset, f, nil, parser.SkipObjectResolution)
			if err != nil {
				continue
			}
			for _, d := range af.Decls {
				gd, ok := d.(*ast.GenDecl)
				if !ok || gd.Tok != token.VAR {
					continue
				}
				for _, sp := range gd.Specs {
					vs := sp.(*ast.ValueSpec)
					if len(vs.Names) != len(vs.Values) {
						continue
					}
					for k, v := range vs.Values {
						ce, ok := v.(*ast.CallExpr)
						if !ok || (len(ce.Args) != 1 && len(ce.Args) != 3) {
							continue
						}
						sel, ok := ce.Fun.(*ast.SelectorExpr)
						if ok && sel.Sel.Name == "Register" && len(ce.Args) == 3 {
							// X = errorsmod.Register(codespace, code, "description")
							if lit, isLit := ce.Args[2].(*ast.BasicLit); isLit && lit.Kind == token.STRING {
								if txt, err := strconv.Unquote(lit.Value); err == nil {
									tbl[vs.Names[k].Name] = "\x00reg|" + exprText(ce.Args[0]) + "|" + exprText(ce.Args[1]) + "|" + txt
								}
							}
							continue
						}
						if !ok || sel.Sel.Name != "New" {
							continue
						}
						if x, ok := sel.X.(*ast.Ident); !ok || x.Name != "errors" || len(ce.Args) != 1 {
							continue
						}
						if lit, ok := ce.Args[0].(*ast.BasicLit); ok && lit.Kind == token.STRING {
							if txt, err := strconv.Unquote(lit.Value); err == nil {
								tbl[vs.Names[k].Name] = txt
							}
						}
					}
				}
			}
		}
	}
	msg, ok := tbl[name]
	return msg, ok
}

var getterMu sync.Mutex

// simpleGetter recognises, in the dependency's own source (parsed on every run), the generated
// accessor shape
//
//	func (m *T) GetF() X { if m != nil { return m.F }; return <zero> }
//
// and returns the field name F.
func (s *Session) simpleGetter(pkgPath, recv, method string) (string, bool) {
	getterMu.Lock()
	defer getterMu.Unlock()
	if s.getters == nil {
		s.getters = map[string]map[string]string{}
	}
	tbl, ok := s.getters[pkgPath]
	if !ok {
		tbl = map[string]string{}
		s.getters[pkgPath] = tbl
		dir := s.PkgDirs[pkgPath]
		matches, _ := filepath.Glob(filepath.Join(dir, "*.go"))
		fset := token.NewFileSet()
		for _, f := range matches {
			if strings.HasSuffix(f, "_test.go") || dir == "" {
				continue
			}
			af, err := parser.ParseFile(fset, f, nil, parser.SkipObjectResolution)
			if err != nil {
				continue
			}
			for _, d := range af.Decls {
				fd, ok := d.(*ast.FuncDecl)
				if !ok || fd.Recv == nil || len(fd.Recv.List) != 1 || fd.Body == nil || len(fd.Body.List) != 2 || len(fd.Recv.List[0].Names) != 1 {
					continue
				}
				star, ok := fd.Recv.List[0].Type.(*ast.StarExpr)
				if !ok {
					continue
				}
				tn, ok := star.X.(*ast.Ident)
				if !ok {
					continue
				}
				rn := fd.Recv.List[0].Names[0].Name
				ifs, ok := fd.Body.List[0].(*ast.IfStmt)
				if !ok || ifs.Init != nil || ifs.Else != nil || len(ifs.Body.List) != 1 {
					continue
				}
				cond, ok := ifs.Cond.(*ast.BinaryExpr)
				if !ok || cond.Op != token.NEQ {
					continue
				}
				cx, ok1 := cond.X.(*ast.Ident)
				cy, ok2 := cond.Y.(*ast.Ident)
				if !ok1 || !ok2 || cx.Name != rn || cy.Name != "nil" {
					continue
				}
				ret, ok := ifs.Body.List[0].(*ast.ReturnStmt)
				if !ok || len(ret.Results) != 1 {
					continue
				}
				sel, ok := ret.Results[0].(*ast.SelectorExpr)
				if !ok {
					continue
				}
				sx, ok := sel.X.(*ast.Ident)
				if !ok || sx.Name != rn {
					continue
				}
				if _, ok := fd.Body.List[1].(*ast.ReturnStmt); !ok {
					continue
				}
				tbl[tn.Name+"."+fd.Name.Name] = sel.Sel.Name
			}
		}
	}
	f, ok := tbl[recv+"."+method]
	return f, ok
}

// exprText renders an identifier or basic literal argument ("" for anything else).
func exprText(e ast.Expr) string {
	switch x := e.(type) {
	case *ast.Ident:
		return x.Name
	case *ast.BasicLit:
		return x.Value
	}
	return ""
}
