package interp

// Loading /repo (with overlay) into an SSA program.

import (
	"fmt"
	"go/types"
	"os"
	"path/filepath"
	"strings"

	"golang.org/x/tools/go/packages"
	"golang.org/x/tools/go/ssa"
	"golang.org/x/tools/go/ssa/ssautil"
)

type LoadConfig struct {
	RepoDir        string
	Overlay        map[string][]byte
	Patterns       []string // packages to load from source (roots)
	Env            []string
	AutoRootPrefix string // packages with this import-path prefix reachable from Patterns are loaded from source too
}

// Load builds the SSA program. Only root packages have function bodies.
func Load(cfg LoadConfig) (*Session, []*packages.Package, error) {
	pcfg := &packages.Config{
		Mode: packages.NeedName | packages.NeedFiles | packages.NeedCompiledGoFiles | packages.NeedImports |
			packages.NeedTypes | packages.NeedTypesSizes | packages.NeedSyntax | packages.NeedTypesInfo | packages.NeedDeps,
		Dir:     cfg.RepoDir,
		Overlay: cfg.Overlay,
		Env:     append(os.Environ(), cfg.Env...),
	}
	// NeedDeps together with NeedSyntax would type-check every dependency with bodies; emulate
	// LoadSyntax (bodies only for roots) by dropping NeedDeps' body requirement: go/packages
	// type-checks non-root packages with IgnoreFuncBodies when NeedDeps is not set.
	// phase 1: find the fx-core packages reachable from the requested roots; they all become roots
	pre := &packages.Config{Mode: packages.NeedName | packages.NeedImports | packages.NeedDeps, Dir: cfg.RepoDir, Overlay: cfg.Overlay, Env: pcfg.Env}
	if cfg.AutoRootPrefix != "" {
		pp, err := packages.Load(pre, cfg.Patterns...)
		if err != nil {
			return nil, nil, err
		}
		have := map[string]bool{}
		for _, p := range cfg.Patterns {
			have[p] = true
		}
		packages.Visit(pp, nil, func(p *packages.Package) {
			if strings.HasPrefix(p.PkgPath, cfg.AutoRootPrefix) && !have[p.PkgPath] {
				have[p.PkgPath] = true
				cfg.Patterns = append(cfg.Patterns, p.PkgPath)
			}
		})
	}
	pcfg.Mode = packages.LoadSyntax
	initial, err := packages.Load(pcfg, cfg.Patterns...)
	if err != nil {
		return nil, nil, err
	}
	var errs []string
	packages.Visit(initial, nil, func(p *packages.Package) {
		for _, e := range p.Errors {
			errs = append(errs, e.Error())
		}
	})
	if len(errs) > 0 {
		if len(errs) > 20 {
			errs = errs[:20]
		}
		return nil, initial, fmt.Errorf("package load errors:\n%s", strings.Join(errs, "\n"))
	}
	prog, pkgs := ssautil.Packages(initial, ssa.InstantiateGenerics)
	for _, p := range pkgs {
		if p != nil {
			p.Build()
		}
	}
	var sizes types.Sizes = &types.StdSizes{WordSize: 8, MaxAlign: 8}
	s := &Session{Prog: prog, Sizes: sizes, PkgDirs: map[string]string{}}
	packages.Visit(initial, nil, func(p *packages.Package) {
		if len(p.GoFiles) > 0 {
			s.PkgDirs[p.PkgPath] = filepath.Dir(p.GoFiles[0])
		}
	})
	for _, p := range pkgs {
		if p != nil {
			s.Pkgs = append(s.Pkgs, p)
		}
	}
	return s, initial, nil
}
