package interp

// Loading /repo (with overlay) into an SSA program.

import (
	"fmt"
	"go/ast"
	"go/parser"
	"go/token"
	"go/types"
	"os"
	"path/filepath"
	"strconv"
	"strings"
	"sync"

	"golang.org/x/tools/go/packages"
	"golang.org/x/tools/go/ssa"
	"golang.org/x/tools/go/ssa/ssautil"
)

type LoadConfig struct {
	RepoDir        string
	Overlay        map[string][]byte
	Patterns       []string // packages to load from source (roots)
	Env            []string
	AutoRootPrefix string // packages with this import-path prefix reachable from Patterns are loaded from source too
}

// Load builds the SSA program. Only root packages have function bodies.
func Load(cfg LoadConfig) (*Session, []*packages.Package, error) {
	pcfg := &packages.Config{
		Mode: packages.NeedName | packages.NeedFiles | packages.NeedCompiledGoFiles | packages.NeedImports |
			packages.NeedTypes | packages.NeedTypesSizes | packages.NeedSyntax | packages.NeedTypesInfo | packages.NeedDeps,
		Dir:     cfg.RepoDir,
		Overlay: cfg.Overlay,
		Env:     append(os.Environ(), cfg.Env...),
	}
	// NeedDeps together with NeedSyntax would type-check every dependency with bodies; emulate
	// LoadSyntax (bodies only for roots) by dropping NeedDeps' body requirement: go/packages
	// type-checks non-root packages with IgnoreFuncBodies when NeedDeps is not set.
	// phase 1: find the fx-core packages reachable from the requested roots; they all become roots
	pre := &packages.Config{Mode: packages.NeedName | packages.NeedImports | packages.NeedDeps, Dir: cfg.RepoDir, Overlay: cfg.Overlay, Env: pcfg.Env}
	if cfg.AutoRootPrefix != "" {
		pp, err := packages.Load(pre, cfg.Patterns...)
		if err != nil {
			return nil, nil, err
		}
		have := map[string]bool{}
		for _, p := range cfg.Patterns {
			have[p] = true
		}
		packages.Visit(pp, nil, func(p *packages.Package) {
			if strings.HasPrefix(p.PkgPath, cfg.AutoRootPrefix) && !have[p.PkgPath] {
				have[p.PkgPath] = true
				cfg.Patterns = append(cfg.Patterns, p.PkgPath)
			}
		})
	}
	pcfg.Mode = packages.LoadSyntax
	initial, err := packages.Load(pcfg, cfg.Patterns...)
	if err != nil {
		return nil, nil, err
	}
	var errs []string
	packages.Visit(initial, nil, func(p *packages.Package) {
		for _, e := range p.Errors {
			errs = append(errs, e.Error())
		}
	})
	if len(errs) > 0 {
		if len(errs) > 20 {
			errs = errs[:20]
		}
		return nil, initial, fmt.Errorf("package load errors:\n%s", strings.Join(errs, "\n"))
	}
	prog, pkgs := ssautil.Packages(initial, ssa.InstantiateGenerics)
	for _, p := range pkgs {
		if p != nil {
			p.Build()
		}
	}
	var sizes types.Sizes = &types.StdSizes{WordSize: 8, MaxAlign: 8}
	s := &Session{Prog: prog, Sizes: sizes, PkgDirs: map[string]string{}}
	packages.Visit(initial, nil, func(p *packages.Package) {
		if len(p.GoFiles) > 0 {
			s.PkgDirs[p.PkgPath] = filepath.Dir(p.GoFiles[0])
		}
	})
	for _, p := range pkgs {
		if p != nil {
			s.Pkgs = append(s.Pkgs, p)
		}
	}
	return s, initial, nil
}

var errVarMu sync.Mutex

// simpleErrVar parses the source files of a dependency package (regenerated on every run) and
// returns the message of a package-level `var name = errors.New("message")`.
func (s *Session) simpleErrVar(pkgPath, name string) (string, bool) {
	errVarMu.Lock()
	defer errVarMu.Unlock()
	if s.errVars == nil {
		s.errVars = map[string]map[string]string{}
	}
	tbl, ok := s.errVars[pkgPath]
	if !ok {
		tbl = map[string]string{}
		s.errVars[pkgPath] = tbl
		dir := s.PkgDirs[pkgPath]
		matches, _ := filepath.Glob(filepath.Join(dir, "*.go"))
		fset := token.NewFileSet()
		for _, f := range matches {
			if strings.HasSuffix(f, "_test.go") || dir == "" {
				continue
			}
			af, err := parser.ParseFile(fset, f, nil, parser.SkipObjectResolution)
			if err != nil {
				continue
			}
			for _, d := range af.Decls {
				gd, ok := d.(*ast.GenDecl)
				if !ok || gd.Tok != token.VAR {
					continue
				}
				for _, sp := range gd.Specs {
					vs := sp.(*ast.ValueSpec)
					if len(vs.Names) != len(vs.Values) {
						continue
					}
					for k, v := range vs.Values {
						ce, ok := v.(*ast.CallExpr)
						if !ok || len(ce.Args) != 1 {
							continue
						}
						sel, ok := ce.Fun.(*ast.SelectorExpr)
						if !ok || sel.Sel.Name != "New" {
							continue
						}
						if x, ok := sel.X.(*ast.Ident); !ok || x.Name != "errors" {
							continue
						}
						if lit, ok := ce.Args[0].(*ast.BasicLit); ok && lit.Kind == token.STRING {
							if txt, err := strconv.Unquote(lit.Value); err == nil {
								tbl[vs.Names[k].Name] = txt
							}
						}
					}
				}
			}
		}
	}
	msg, ok := tbl[name]
	return msg, ok
}
