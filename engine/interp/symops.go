package interp

// Symbolic extensions of the interpreter's operators.

import (
	"fmt"
	"go/token"
	"go/types"
	"runtime"
	"strings"

	"golang.org/x/tools/go/ssa"
)

func mustDeref(t types.Type) types.Type {
	if p, ok := t.Underlying().(*types.Pointer); ok {
		return p.Elem()
	}
	// core type of type parameter is not needed (InstantiateGenerics)
	panic(fmt.Sprintf("mustDeref: %v is not a pointer", t))
}

// isEngineControl reports whether a recovered panic value must propagate through target frames
// untouched (engine control flow / engine failures), converting engine-internal failures.
func isEngineControl(r interface{}) bool {
	switch r.(type) {
	case pathAbort, pathLimit, engineError:
		return true
	case *runtime.TypeAssertionError:
		return true
	case string:
		// the interpreter's own "cannot happen" panics
		return true
	}
	return false
}

func rtErr(i *interpreter, msg string) targetPanic {
	return targetPanic{iface{rtErrType, "runtime error: " + msg}}
}

// ---------------------------------------------------------------------------------------------
// strings with symbolic bytes

// sstr is a string at least one of whose bytes is symbolic. Elements are uint8 or symv(Uint8).
type sstr []value

// rope is a lazily rendered string: byte elements interleaved with lazyDec items (decimal
// renderings of symbolic integers that have not been forked on yet). It is materialised only
// when some operation inspects the text; strings that merely flow into events never are.
type rope struct {
	parts []value
	done  value // string or sstr once materialised
}

type lazyDec struct {
	fr  *frame
	v   symv  // machine integer, or
	big *Term // Int-sorted big integer (when non-nil)
}

func (l lazyDec) render() []value {
	if l.big != nil {
		return strElems(decimalString(l.fr, l.big))
	}
	return strElems(decimalBV(l.fr, l.v))
}

func (l lazyDec) sameShape(o lazyDec) bool {
	if (l.big != nil) != (o.big != nil) {
		return false
	}
	return l.big != nil || l.v.k == o.v.k
}

func (l lazyDec) eqTerm(o lazyDec) *Term {
	if l.big != nil {
		return mkEq(l.big, o.big)
	}
	return mkEq(l.v.t, o.v.t)
}

func (l lazyDec) sameTerm(o lazyDec) bool {
	if l.big != nil || o.big != nil {
		return l.big == o.big
	}
	return l.v.t == o.v.t
}

func (r *rope) force() value {
	if r.done != nil {
		return r.done
	}
	var out []value
	for _, p := range r.parts {
		if l, ok := p.(lazyDec); ok {
			out = append(out, l.render()...)
		} else {
			out = append(out, p)
		}
	}
	r.done = mkStr(out)
	return r.done
}

// lazyBytes returns the rope's parts un-materialised if every lazy decimal is followed by a
// concrete non-digit byte or the end of the text (then equal layouts are equal iff their parts are).
func (r *rope) lazyBytes() ([]value, bool) {
	if r.done != nil {
		return nil, false
	}
	for i, p := range r.parts {
		if _, ok := p.(lazyDec); !ok {
			continue
		}
		if i+1 == len(r.parts) {
			continue
		}
		c, ok := r.parts[i+1].(uint8)
		if !ok || (c >= '0' && c <= '9') {
			return nil, false
		}
	}
	return append([]value{}, r.parts...), true
}

func hasLazy(b []value) bool {
	for _, e := range b {
		if _, ok := e.(lazyDec); ok {
			return true
		}
	}
	return false
}

// forceBytes materialises lazy decimals inside a byte list.
func forceBytes(b []value) []value {
	if !hasLazy(b) {
		return b
	}
	var out []value
	for _, p := range b {
		if l, ok := p.(lazyDec); ok {
			out = append(out, l.render()...)
		} else {
			out = append(out, p)
		}
	}
	return out
}

// force materialises lazily rendered strings.
func force(v value) value {
	if r, ok := v.(*rope); ok {
		return r.force()
	}
	return v
}

func forceAll(vs []value) {
	for i, v := range vs {
		switch x := v.(type) {
		case *rope:
			vs[i] = x.force()
		case iface:
			if r, ok := x.v.(*rope); ok {
				vs[i] = iface{t: x.t, v: r.force()}
			}
		}
	}
}

func strElems(v value) []value {
	switch s := v.(type) {
	case *rope:
		return strElems(s.force())
	case string:
		r := make([]value, len(s))
		for i := 0; i < len(s); i++ {
			r[i] = s[i]
		}
		return r
	case sstr:
		return []value(s)
	}
	panic(engineError{fmt.Sprintf("strElems: %T", v)})
}

func isStr(v value) bool {
	switch v.(type) {
	case string, sstr, *rope:
		return true
	}
	return false
}

// mkStr builds a string value from byte elements (concrete string when all bytes concrete).
func mkStr(b []value) value {
	conc := true
	for _, e := range b {
		if _, ok := e.(uint8); !ok {
			conc = false
			break
		}
	}
	if conc {
		bs := make([]byte, len(b))
		for i, e := range b {
			bs[i] = e.(uint8)
		}
		return string(bs)
	}
	cp := make(sstr, len(b))
	copy(cp, b)
	return cp
}

func strLen(v value) int {
	switch s := v.(type) {
	case *rope:
		return strLen(s.force())
	case string:
		return len(s)
	case sstr:
		return len(s)
	}
	panic(engineError{fmt.Sprintf("strLen: %T", v)})
}

func mapKey(k value) value {
	if _, ok := k.(sstr); ok {
		panic(engineError{"map key with symbolic string content"})
	}
	if _, ok := k.(symv); ok {
		panic(engineError{"symbolic map key"})
	}
	return k
}

// ---------------------------------------------------------------------------------------------
// booleans

func vAnd(a, b value) value {
	if x, ok := a.(bool); ok {
		if !x {
			return false
		}
		return b
	}
	if y, ok := b.(bool); ok {
		if !y {
			return false
		}
		return a
	}
	return mkVal(mkAnd(termOf(a), termOf(b)), types.Bool)
}

func vOr(a, b value) value {
	if x, ok := a.(bool); ok {
		if x {
			return true
		}
		return b
	}
	if y, ok := b.(bool); ok {
		if y {
			return true
		}
		return a
	}
	return mkVal(mkOr(termOf(a), termOf(b)), types.Bool)
}

func vNot(a value) value {
	if x, ok := a.(bool); ok {
		return !x
	}
	return mkVal(mkNot(termOf(a)), types.Bool)
}

// ---------------------------------------------------------------------------------------------
// equality

func hasSym(x value) bool {
	switch x := x.(type) {
	case symv, sstr, *rope:
		return true
	case structure:
		for _, e := range x {
			if hasSym(e) {
				return true
			}
		}
	case array:
		for _, e := range x {
			if hasSym(e) {
				return true
			}
		}
	case iface:
		return hasSym(x.v)
	}
	return false
}

// equalsV is equals() extended to symbolic content; it returns bool or symv(Bool).
func equalsV(t types.Type, x, y value) value {
	if !hasSym(x) && !hasSym(y) {
		return equals(t, x, y)
	}
	x, y = force(x), force(y)
	switch x := x.(type) {
	case symv:
		return mkVal(mkEq(x.t, termOf(y)), types.Bool)
	case string, sstr:
		return strEq(x, y)
	case structure:
		ys := y.(structure)
		var res value = true
		st := t.Underlying().(*types.Struct)
		for i := range x {
			if st.Field(i).Name() == "_" {
				continue
			}
			res = vAnd(res, equalsV(st.Field(i).Type(), x[i], ys[i]))
			if b, ok := res.(bool); ok && !b {
				return false
			}
		}
		return res
	case array:
		ya := y.(array)
		var res value = true
		et := t.Underlying().(*types.Array).Elem()
		for i := range x {
			res = vAnd(res, equalsV(et, x[i], ya[i]))
			if b, ok := res.(bool); ok && !b {
				return false
			}
		}
		return res
	case iface:
		yi := y.(iface)
		if !sameType(x.t, yi.t) {
			return false
		}
		if x.t == nil {
			return true
		}
		return equalsV(x.t, x.v, yi.v)
	}
	if _, ok := y.(symv); ok {
		return mkVal(mkEq(termOf(x), termOf(y)), types.Bool)
	}
	return equals(t, x, y)
}

func strEq(x, y value) value {
	if strLen(x) != strLen(y) {
		return false
	}
	a, b := strElems(x), strElems(y)
	return elemsEq(a, b)
}

func elemsEq(a, b []value) value {
	if hasLazy(a) || hasLazy(b) {
		// same layout: compare piecewise (decimal renderings are canonical); otherwise materialise
		same := len(a) == len(b)
		if same {
			for i := range a {
				la, oka := a[i].(lazyDec)
				lb, okb := b[i].(lazyDec)
				if oka != okb || (oka && !la.sameShape(lb)) {
					same = false
					break
				}
				if !oka {
					ca, ok1 := a[i].(uint8)
					cb, ok2 := b[i].(uint8)
					if !ok1 || !ok2 || ca != cb {
						same = false
						break
					}
				}
			}
		}
		if !same {
			// a concrete mismatch in the common prefix before the first lazy piece decides it
			for i := 0; i < len(a) && i < len(b); i++ {
				if _, ok := a[i].(lazyDec); ok {
					break
				}
				if _, ok := b[i].(lazyDec); ok {
					break
				}
				ca, ok1 := a[i].(uint8)
				cb, ok2 := b[i].(uint8)
				if ok1 && ok2 && ca != cb {
					return false
				}
			}
			return elemsEq(forceBytes(a), forceBytes(b))
		}
		acc := tTrue
		for i := range a {
			if la, ok := a[i].(lazyDec); ok {
				acc = mkAnd(acc, la.eqTerm(b[i].(lazyDec)))
			}
		}
		return mkVal(acc, types.Bool)
	}
	if len(a) != len(b) {
		return false
	}
	acc := tTrue
	for i := range a {
		ca, oka := a[i].(uint8)
		cb, okb := b[i].(uint8)
		if oka && okb {
			if ca != cb {
				return false
			}
			continue
		}
		if pa, ok := a[i].(blob); ok {
			pb, ok2 := b[i].(blob)
			if !ok2 || !types.Identical(pa.t, pb.t) {
				return false
			}
			acc = mkAnd(acc, termOf(deepEq(pa.v, pb.v)))
			if acc.isFalse() {
				return false
			}
			continue
		} else if _, ok := b[i].(blob); ok {
			return false
		}
		ba, isBa := a[i].(abiBlob)
		bb, isBb := b[i].(abiBlob)
		if isBa || isBb {
			if !(isBa && isBb) {
				return false
			}
			acc = mkAnd(acc, termOf(deepEq(ba.args, bb.args)))
			if acc.isFalse() {
				return false
			}
			continue
		}
		acc = mkAnd(acc, mkEq(termOf(a[i]), termOf(b[i])))
		if acc.isFalse() {
			return false
		}
	}
	return mkVal(acc, types.Bool)
}

// strLess returns x < y lexicographically (bytes).
func elemsLess(a, b []value, orEqual bool) value {
	// build from the end: less(i) = a[i]<b[i] || (a[i]==b[i] && less(i+1))
	n := len(a)
	if len(b) < n {
		n = len(b)
	}
	var tail *Term
	if len(a) < len(b) {
		tail = tTrue
	} else if len(a) == len(b) {
		tail = b2t(orEqual)
	} else {
		tail = tFalse
	}
	for i := n - 1; i >= 0; i-- {
		ta, tb := termOf(a[i]), termOf(b[i])
		tail = mkOr(bvCmp("bvult", ta, tb), mkAnd(mkEq(ta, tb), tail))
	}
	return mkVal(tail, types.Bool)
}

// ---------------------------------------------------------------------------------------------
// binary operators with symbolic operands

func (i *interpreter) divCheck(y value) {
	sv, ok := y.(symv)
	if !ok {
		return
	}
	if i.px == nil {
		panic(engineError{"symbolic division outside exploration"})
	}
	w, _ := kindWidth(sv.k)
	if i.px.branch(mkEq(sv.t, mkBV(w, 0))) {
		panic(rtErr(i, "integer divide by zero"))
	}
}

func symBinop(i *interpreter, op token.Token, t types.Type, x, y value) value {
	x, y = force(x), force(y)
	// strings
	if isStr(x) && isStr(y) {
		switch op {
		case token.ADD:
			return mkStr(append(append([]value{}, strElems(x)...), strElems(y)...))
		case token.EQL:
			return strEq(x, y)
		case token.NEQ:
			return vNot(strEq(x, y))
		case token.LSS:
			return elemsLess(strElems(x), strElems(y), false)
		case token.LEQ:
			return elemsLess(strElems(x), strElems(y), true)
		case token.GTR:
			return elemsLess(strElems(y), strElems(x), false)
		case token.GEQ:
			return elemsLess(strElems(y), strElems(x), true)
		}
		panic(engineError{"string op " + op.String()})
	}
	switch op {
	case token.EQL:
		return equalsV(t, x, y)
	case token.NEQ:
		return vNot(equalsV(t, x, y))
	}
	kx, okx := valueKind(x)
	if !okx {
		panic(engineError{fmt.Sprintf("symbolic binop %s on %T,%T", op, x, y)})
	}
	if kx == types.Bool {
		panic(engineError{fmt.Sprintf("symbolic bool binop %s", op)})
	}
	w, signed := kindWidth(kx)
	tx := termOf(x)
	if op == token.SHL || op == token.SHR {
		ky, _ := valueKind(y)
		wy, sy := kindWidth(ky)
		ty := termOf(y)
		if sy {
			// negative shift count panics
			if sv, ok := y.(symv); ok {
				if i.px.branch(bvCmp("bvslt", sv.t, mkBV(wy, 0))) {
					panic(rtErr(i, "negative shift amount"))
				}
			} else if asInt64(y) < 0 {
				panic(rtErr(i, "negative shift amount"))
			}
		}
		var cnt *Term
		var big *Term = tFalse
		if wy > w {
			big = bvCmp("bvuge", ty, mkBV(wy, uint64(w)))
			cnt = bvExtract(w-1, 0, ty)
		} else {
			cnt = bvZext(w, ty)
		}
		var r *Term
		if op == token.SHL {
			r = mkIte(big, mkBV(w, 0), bvBin("bvshl", tx, cnt))
		} else if signed {
			r = mkIte(big, bvBin("bvashr", tx, mkBV(w, uint64(w-1))), bvBin("bvashr", tx, cnt))
		} else {
			r = mkIte(big, mkBV(w, 0), bvBin("bvlshr", tx, cnt))
		}
		return mkVal(r, kx)
	}
	ty := termOf(y)
	if ty.sort != tx.sort {
		panic(engineError{fmt.Sprintf("binop %s operand sorts differ: %v %v", op, tx.sort, ty.sort)})
	}
	var r *Term
	switch op {
	case token.ADD:
		r = bvBin("bvadd", tx, ty)
	case token.SUB:
		r = bvBin("bvsub", tx, ty)
	case token.MUL:
		r = bvBin("bvmul", tx, ty)
	case token.QUO:
		i.divCheck(y)
		if signed {
			r = bvBin("bvsdiv", tx, ty)
		} else {
			r = bvBin("bvudiv", tx, ty)
		}
	case token.REM:
		i.divCheck(y)
		if signed {
			r = bvBin("bvsrem", tx, ty)
		} else {
			r = bvBin("bvurem", tx, ty)
		}
	case token.AND:
		r = bvBin("bvand", tx, ty)
	case token.OR:
		r = bvBin("bvor", tx, ty)
	case token.XOR:
		r = bvBin("bvxor", tx, ty)
	case token.AND_NOT:
		r = bvBin("bvand", tx, bvNot(ty))
	case token.LSS, token.LEQ, token.GTR, token.GEQ:
		name := map[token.Token]string{token.LSS: "lt", token.LEQ: "le", token.GTR: "gt", token.GEQ: "ge"}[op]
		if signed {
			name = "bvs" + name
		} else {
			name = "bvu" + name
		}
		return mkVal(bvCmp(name, tx, ty), types.Bool)
	default:
		panic(engineError{"symbolic binop " + op.String()})
	}
	return mkVal(r, kx)
}

func symUnop(op token.Token, x symv) value {
	switch op {
	case token.NOT:
		return mkVal(mkNot(x.t), types.Bool)
	case token.SUB:
		return mkVal(bvNeg(x.t), x.k)
	case token.XOR:
		return mkVal(bvNot(x.t), x.k)
	}
	panic(engineError{"symbolic unop " + op.String()})
}

// symConv converts symbolic scalar x to basic kind dst.
func symConv(dst types.BasicKind, x symv) value {
	if dst == types.Float32 || dst == types.Float64 {
		panic(engineError{"symbolic integer to float conversion"})
	}
	if dst == types.String {
		panic(engineError{"symbolic integer to string conversion"})
	}
	ws, ss := kindWidth(x.k)
	wd, _ := kindWidth(dst)
	var t *Term
	switch {
	case wd == ws:
		t = x.t
	case wd < ws:
		t = bvExtract(wd-1, 0, x.t)
	case ss:
		t = bvSext(wd, x.t)
	default:
		t = bvZext(wd, x.t)
	}
	return mkVal(t, dst)
}

// ---------------------------------------------------------------------------------------------
// indexing and slicing

func (fr *frame) indexOf(idx value, n int) int64 {
	if _, ok := idx.(symv); ok {
		return fr.concInt(idx, 0, int64(n)-1, "index")
	}
	k := asInt64(idx)
	if k < 0 || k >= int64(n) {
		panic(rtErr(fr.i, fmt.Sprintf("index out of range [%d] with length %d", k, n)))
	}
	return k
}

// symIndex reads elems[idx] where idx may be symbolic (ite-chain for scalar elements).
func (fr *frame) symIndex(elems []value, idx value) value {
	sv, ok := idx.(symv)
	if !ok {
		return elems[fr.indexOf(idx, len(elems))]
	}
	// scalar elements of one kind: build ite chain, with a bounds obligation via branch
	n := len(elems)
	if n == 0 {
		panic(rtErr(fr.i, "index out of range with length 0"))
	}
	k0, ok0 := valueKind(elems[0])
	allScalar := ok0
	for _, e := range elems {
		k, ok := valueKind(e)
		if !ok || k != k0 {
			allScalar = false
			break
		}
	}
	if !allScalar || n > 300 {
		return elems[fr.indexOf(idx, n)]
	}
	w, signed := kindWidth(sv.k)
	var oob *Term
	if signed {
		oob = mkOr(bvCmp("bvslt", sv.t, mkBV(w, 0)), bvCmp("bvsge", sv.t, mkBV(w, uint64(n))))
	} else {
		oob = bvCmp("bvuge", sv.t, mkBV(w, uint64(n)))
	}
	if fr.i.px.branch(oob) {
		panic(rtErr(fr.i, "index out of range"))
	}
	r := termOf(elems[n-1])
	for j := n - 2; j >= 0; j-- {
		r = mkIte(mkEq(sv.t, mkBV(w, uint64(j))), termOf(elems[j]), r)
	}
	return mkVal(r, k0)
}

func (fr *frame) sliceOp(x, lo, hi, max value) value {
	var Len, Cap int
	switch x := x.(type) {
	case string:
		Len = len(x)
		Cap = Len
	case sstr:
		Len = len(x)
		Cap = Len
	case []value:
		Len = len(x)
		Cap = cap(x)
	case *value: // *array
		if x == nil {
			panic(rtErr(fr.i, "invalid memory address or nil pointer dereference"))
		}
		a := (*x).(array)
		Len = len(a)
		Cap = cap(a)
	}
	l := int64(0)
	if lo != nil {
		l = fr.concInt(lo, 0, int64(Cap), "slice bounds")
	}
	h := int64(Len)
	if hi != nil {
		h = fr.concInt(hi, 0, int64(Cap), "slice bounds")
	}
	m := int64(Cap)
	if max != nil {
		m = fr.concInt(max, 0, int64(Cap), "slice bounds")
	}
	if l < 0 || h < l || m < h || m > int64(Cap) {
		panic(rtErr(fr.i, fmt.Sprintf("slice bounds out of range [%d:%d:%d] with capacity %d", l, h, m, Cap)))
	}
	switch x := x.(type) {
	case string:
		return x[l:h]
	case sstr:
		return mkStr([]value(x[l:h]))
	case []value:
		return x[l:h:m]
	case *value: // *array
		a := (*x).(array)
		return []value(a)[l:h:m]
	}
	panic(fmt.Sprintf("slice: unexpected X type: %T", x))
}

// symbolic-aware string range iterator (ASCII assumption for symbolic bytes is enforced by a fork)
type sstrIter struct {
	fr *frame
	s  sstr
	i  int
}

func (it *sstrIter) next() tuple {
	okv := make(tuple, 3)
	if it.i >= len(it.s) {
		okv[0] = false
		return okv
	}
	b := it.s[it.i]
	okv[0] = true
	okv[1] = it.i
	switch c := b.(type) {
	case uint8:
		if c >= 0x80 {
			panic(engineError{"range over string with symbolic bytes and non-ASCII concrete bytes"})
		}
		okv[2] = int32(c)
	case symv:
		// fork: ASCII (rune = byte) or not (unsupported → treated as engine limitation)
		if it.fr.i.px.branch(bvCmp("bvult", c.t, mkBV(8, 0x80))) {
			okv[2] = mkVal(bvZext(32, c.t), types.Int32)
		} else {
			panic(engineError{"range over string: symbolic non-ASCII byte (multi-byte runes not modelled)"})
		}
	}
	it.i++
	return okv
}

// ---------------------------------------------------------------------------------------------
// externals lookup

func (i *interpreter) lookupExternal(fn *ssa.Function) externalFn {
	name := fn.String()
	if ext := externals[name]; ext != nil {
		return ext
	}
	// generic instantiations: strip type arguments "pkg.F[T1,T2]" -> "pkg.F[...]"
	if strings.Contains(name, "[") {
		if ext := externals[stripTypeArgs(name)]; ext != nil {
			return ext
		}
	}
	return nil
}

func stripTypeArgs(name string) string {
	var sb strings.Builder
	depth := 0
	for _, r := range name {
		switch r {
		case '[':
			if depth == 0 {
				sb.WriteString("[...]")
			}
			depth++
		case ']':
			depth--
		default:
			if depth == 0 {
				sb.WriteRune(r)
			}
		}
	}
	return sb.String()
}

// noCode handles a call to a function without body and without intrinsic.
func (i *interpreter) noCode(fr *frame, fn *ssa.Function, args []value) value {
	if i.initPhase {
		if i.sess != nil {
			i.sess.noteInitStub(fn.String())
		}
		return zero(fn.Signature.Results())
	}
	if pkg := fnPkgPath(fn); noopPkgs[pkg] {
		if i.px != nil {
			i.px.intr["(no-op) "+pkg]++
		}
		return zero(fn.Signature.Results())
	}
	if v, ok := i.generatedGetter(fn, args); ok {
		return v
	}
	panic(engineError{"no code and no intrinsic for function: " + fn.String()})
}

// generatedGetter executes a body-less accessor of a dependency whose source has the generated
// nil-safe getter shape (checked against the source on every run).
func (i *interpreter) generatedGetter(fn *ssa.Function, args []value) (value, bool) {
	recv := fn.Signature.Recv()
	if recv == nil || len(args) != 1 || fn.Signature.Results().Len() != 1 || i.sess == nil {
		return nil, false
	}
	pt, ok := recv.Type().(*types.Pointer)
	if !ok {
		return nil, false
	}
	named, ok := pt.Elem().(*types.Named)
	if !ok || named.Obj().Pkg() == nil {
		return nil, false
	}
	st, ok := named.Underlying().(*types.Struct)
	if !ok {
		return nil, false
	}
	field, ok := i.sess.simpleGetter(named.Obj().Pkg().Path(), named.Obj().Name(), fn.Name())
	if !ok {
		return nil, false
	}
	idx := -1
	for k := 0; k < st.NumFields(); k++ {
		if st.Field(k).Name() == field {
			idx = k
		}
	}
	if idx < 0 || !types.Identical(st.Field(idx).Type(), fn.Signature.Results().At(0).Type()) {
		return nil, false
	}
	p, _ := args[0].(*value)
	if p == nil {
		return zero(fn.Signature.Results().At(0).Type()), true
	}
	sv, ok := (*p).(structure)
	if !ok || idx >= len(sv) {
		return nil, false
	}
	if i.px != nil {
		i.px.intr["(generated getter) "+fn.String()]++
	}
	return sv[idx], true
}

// noopPkgs: observability packages whose body-less functions are treated as no-ops.
var noopPkgs = map[string]bool{
	"github.com/cosmos/cosmos-sdk/telemetry": true,
	"github.com/hashicorp/go-metrics":        true,
	"github.com/armon/go-metrics":            true,
}

func fnPkgPath(fn *ssa.Function) string {
	if fn.Pkg != nil {
		return fn.Pkg.Pkg.Path()
	}
	if recv := fn.Signature.Recv(); recv != nil {
		t := recv.Type()
		if p, ok := t.(*types.Pointer); ok {
			t = p.Elem()
		}
		if n, ok := t.(*types.Named); ok && n.Obj().Pkg() != nil {
			return n.Obj().Pkg().Path()
		}
	}
	if fn.Object() != nil && fn.Object().Pkg() != nil {
		return fn.Object().Pkg().Path()
	}
	return ""
}

// deepEq compares two interpreter values structurally (through pointers, slices and interfaces),
// yielding bool or a symbolic condition. Used for opaque ABI argument lists.
func deepEq(x, y value) value {
	x, y = force(x), force(y)
	switch a := x.(type) {
	case []value:
		b, ok := y.([]value)
		if !ok || len(a) != len(b) {
			return false
		}
		var r value = true
		for i := range a {
			r = vAnd(r, deepEq(a[i], b[i]))
			if c, ok := r.(bool); ok && !c {
				return false
			}
		}
		return r
	case structure:
		b, ok := y.(structure)
		if !ok || len(a) != len(b) {
			return false
		}
		return deepEq([]value(a), []value(b))
	case array:
		b, ok := y.(array)
		if !ok || len(a) != len(b) {
			return false
		}
		return deepEq([]value(a), []value(b))
	case iface:
		b, ok := y.(iface)
		if !ok || !sameType(a.t, b.t) {
			return false
		}
		if a.t == nil {
			return true
		}
		return deepEq(a.v, b.v)
	case *value:
		b, ok := y.(*value)
		if !ok {
			return false
		}
		if a == nil || b == nil {
			return a == b
		}
		return deepEq(*a, *b)
	case bigv:
		b, ok := y.(bigv)
		if !ok {
			if ys, ok := y.([]value); ok && len(ys) == 0 {
				return mkVal(mkEq(a.t, mkInt(0)), types.Bool)
			}
			return false
		}
		return mkVal(mkEq(a.t, b.t), types.Bool)
	case string, sstr:
		if !isStr(y) {
			return false
		}
		return strEq(a, y)
	case symv:
		return mkVal(mkEq(a.t, termOf(y)), types.Bool)
	case abiBlob:
		b, ok := y.(abiBlob)
		if !ok {
			return false
		}
		return deepEq(a.args, b.args)
	case blob:
		b, ok := y.(blob)
		if !ok {
			return false
		}
		return deepEq(a.v, b.v)
	}
	if _, ok := y.(symv); ok {
		return mkVal(mkEq(termOf(x), termOf(y)), types.Bool)
	}
	if _, ok := valueKind(x); ok {
		return x == y
	}
	return x == y
}
