package interp

// Intrinsics for standard-library and dependency functions that cannot be executed from SSA
// (assembly, unsafe, reflection) or that would fork needlessly on symbolic data.

import (
	"crypto/sha256"
	"fmt"
	"go/types"
	"strconv"
	"strings"
	"time"
)

func elemsOf(v value) []value {
	switch x := v.(type) {
	case []value:
		return x
	case string, sstr:
		return strElems(x)
	}
	panic(engineError{fmt.Sprintf("elemsOf %T", v)})
}

func concBytes(b []value) ([]byte, bool) {
	out := make([]byte, len(b))
	for i, e := range b {
		c, ok := e.(uint8)
		if !ok {
			return nil, false
		}
		out[i] = c
	}
	return out, true
}

func bytesToElems(b []byte) []value {
	out := make([]value, len(b))
	for i, c := range b {
		out[i] = c
	}
	return out
}

// cmpElems returns -1/0/1 comparison as concrete int or symbolic ite.
func cmpElems(a, b []value) value {
	lt := elemsLess(a, b, false)
	eq := elemsEq(a, b)
	if l, ok := lt.(bool); ok {
		if e, ok2 := eq.(bool); ok2 {
			if l {
				return int(-1)
			}
			if e {
				return int(0)
			}
			return int(1)
		}
	}
	r := mkIte(termOf(lt), mkBVBig(64, bigFromInt64(-1)), mkIte(termOf(eq), mkBV(64, 0), mkBV(64, 1)))
	return mkVal(r, types.Int)
}

// indexByteElems finds the first index of c, forking on symbolic comparisons.
func (fr *frame) indexByteElems(s []value, c value) value {
	for i, e := range s {
		eq := equalsV(types.Typ[types.Uint8], e, c)
		switch q := eq.(type) {
		case bool:
			if q {
				return i
			}
		case symv:
			if fr.px().branch(q.t) {
				return i
			}
		}
	}
	return int(-1)
}

func lowerElem(e value, upper bool) value {
	lo, hi, delta := uint64('A'), uint64('Z'), uint64(32)
	switch c := e.(type) {
	case uint8:
		if upper {
			if c >= 'a' && c <= 'z' {
				return c - 32
			}
			return c
		}
		if c >= 'A' && c <= 'Z' {
			return c + 32
		}
		return c
	case symv:
		if upper {
			lo, hi = 'a', 'z'
			return mkVal(mkIte(mkAnd(bvCmp("bvuge", c.t, mkBV(8, lo)), bvCmp("bvule", c.t, mkBV(8, hi))), bvBin("bvsub", c.t, mkBV(8, delta)), c.t), types.Uint8)
		}
		return mkVal(mkIte(mkAnd(bvCmp("bvuge", c.t, mkBV(8, lo)), bvCmp("bvule", c.t, mkBV(8, hi))), bvBin("bvadd", c.t, mkBV(8, delta)), c.t), types.Uint8)
	}
	panic(engineError{"lowerElem"})
}

// requireASCII forks: all symbolic bytes < 0x80, otherwise the path is an engine limitation.
func (fr *frame) requireASCII(s []value, what string) {
	cond := tTrue
	for _, e := range s {
		switch c := e.(type) {
		case uint8:
			if c >= 0x80 {
				panic(engineError{what + ": non-ASCII bytes not modelled"})
			}
		case symv:
			cond = mkAnd(cond, bvCmp("bvult", c.t, mkBV(8, 0x80)))
		}
	}
	if cond.isTrue() {
		return
	}
	if !fr.px().branch(cond) {
		panic(engineError{what + ": symbolic non-ASCII byte (multi-byte runes not modelled)"})
	}
}

type hashRec struct {
	pre []value
	out []value
}

// uninterpretedHash models a collision-free hash: equal outputs iff equal inputs.
func (fr *frame) uninterpretedHash(fname string, pre []value, n int, real func([]byte) []byte) []value {
	if hasLazy(pre) && fr.i.px != nil {
		// identical pre-image (same terms) hashed before on this path: same digest
		for _, h := range fr.i.px.hashes[fname] {
			if sameLazyElems(h.pre, pre) {
				return h.out
			}
		}
	}
	if cb, ok := concBytes(pre); ok && real != nil {
		out := bytesToElems(real(cb))
		if fr.i.px != nil {
			fr.i.px.addHash(fname, pre, out)
		}
		return out
	}
	px := fr.px()
	out := make([]value, n)
	for j := range out {
		out[j] = symv{t: px.freshVar("", bvSort(8)), k: types.Uint8}
	}
	px.addHash(fname, pre, out)
	px.w.ex.noteAssumption(fname + " is modelled as a collision-free uninterpreted hash (equal digests iff equal pre-images)")
	return out
}

func (px *pathCtx) addHash(fname string, pre, out []value) {
	if px.hashes == nil {
		px.hashes = map[string][]hashRec{}
	}
	for _, h := range px.hashes[fname] {
		pe := elemsEq(h.pre, pre)
		oe := elemsEq(h.out, out)
		if _, ok := pe.(bool); ok {
			if _, ok2 := oe.(bool); ok2 {
				continue
			}
		}
		px.assertPC(mkEq(termOf(pe), termOf(oe)))
	}
	px.hashes[fname] = append(px.hashes[fname], hashRec{pre: append([]value{}, pre...), out: out})
}

func init() {
	E := externals
	// --- internal/bytealg
	E["internal/bytealg.IndexByte"] = func(fr *frame, args []value) value {
		return fr.indexByteElems(args[0].([]value), args[1])
	}
	E["internal/bytealg.IndexByteString"] = func(fr *frame, args []value) value {
		return fr.indexByteElems(strElems(args[0]), args[1])
	}
	E["internal/bytealg.Compare"] = func(fr *frame, args []value) value {
		return cmpElems(args[0].([]value), args[1].([]value))
	}
	E["bytes.Compare"] = E["internal/bytealg.Compare"]
	E["internal/bytealg.Equal"] = func(fr *frame, args []value) value {
		return elemsEq(args[0].([]value), args[1].([]value))
	}
	E["bytes.Equal"] = E["internal/bytealg.Equal"]
	E["internal/bytealg.CountString"] = func(fr *frame, args []value) value {
		n := 0
		for _, e := range strElems(args[0]) {
			eq := equalsV(types.Typ[types.Uint8], e, args[1])
			switch q := eq.(type) {
			case bool:
				if q {
					n++
				}
			case symv:
				if fr.px().branch(q.t) {
					n++
				}
			}
		}
		return n
	}
	E["internal/bytealg.Count"] = func(fr *frame, args []value) value {
		return E["internal/bytealg.CountString"](fr, []value{mkStr(args[0].([]value)), args[1]})
	}
	E["bytes.IndexByte"] = E["internal/bytealg.IndexByte"]
	E["strings.IndexByte"] = E["internal/bytealg.IndexByteString"]
	indexStr := func(fr *frame, s, sub []value) value {
		if len(sub) == 0 {
			return int(0)
		}
		for i := 0; i+len(sub) <= len(s); i++ {
			eq := elemsEq(s[i:i+len(sub)], sub)
			switch q := eq.(type) {
			case bool:
				if q {
					return i
				}
			case symv:
				if fr.px().branch(q.t) {
					return i
				}
			}
		}
		return int(-1)
	}
	E["strings.Index"] = func(fr *frame, args []value) value {
		return indexStr(fr, strElems(args[0]), strElems(args[1]))
	}
	// strconv on symbolic integers: decimal text as a lazily rendered number (like fmt's %d)
	fmtInt := func(name string, signedKind bool) {
		E["strconv."+name] = func(fr *frame, args []value) value {
			sv, sym := args[0].(symv)
			base := 10
			if len(args) > 1 {
				base = int(asInt64(args[1]))
			}
			if !sym {
				if signedKind {
					return strconv.FormatInt(asInt64(args[0]), base)
				}
				return strconv.FormatUint(uint64(asInt64(args[0])), base)
			}
			if base != 10 {
				panic(engineError{"strconv." + name + ": symbolic value in a base other than 10"})
			}
			return &rope{parts: []value{lazyDec{fr: fr, v: sv}}}
		}
	}
	fmtInt("Itoa", true)
	fmtInt("FormatInt", true)
	fmtInt("FormatUint", false)
	appInt := func(name string, signedKind bool) {
		E["strconv."+name] = func(fr *frame, args []value) value {
			dst, _ := args[0].([]value)
			sv, sym := args[1].(symv)
			base := int(asInt64(args[2]))
			if !sym {
				var txt string
				if signedKind {
					txt = strconv.FormatInt(asInt64(args[1]), base)
				} else {
					txt = strconv.FormatUint(uint64(asInt64(args[1])), base)
				}
				return append(dst, strElems(txt)...)
			}
			if base != 10 {
				panic(engineError{"strconv." + name + ": symbolic value in a base other than 10"})
			}
			return append(dst, strElems(decimalBV(fr, sv))...)
		}
	}
	appInt("AppendInt", true)
	appInt("AppendUint", false)
	// encoding/json is reflection; only the case "this is not JSON at all" is modelled (free-form
	// metadata text): concrete data whose first non-space byte cannot start a JSON value.
	E["encoding/json.Unmarshal"] = func(fr *frame, args []value) value {
		data, _ := args[0].([]value)
		for _, e := range data {
			c, ok := e.(uint8)
			if !ok {
				break
			}
			if c == ' ' || c == '\t' || c == '\n' || c == '\r' {
				continue
			}
			if strings.IndexByte("{[\"-0123456789tfn", c) < 0 {
				return fr.i.newError("invalid character looking for beginning of value", iface{})
			}
			break
		}
		panic(engineError{"encoding/json.Unmarshal: only text that is not JSON is modelled"})
	}
	E["internal/stringslite.Clone"] = func(fr *frame, args []value) value { return args[0] }
	E["strings.Clone"] = E["internal/stringslite.Clone"]
	E["strings.Count"] = func(fr *frame, args []value) value {
		a, aok := args[0].(string)
		b, bok := args[1].(string)
		if aok && bok {
			return strings.Count(a, b)
		}
		s, sub := strElems(args[0]), strElems(args[1])
		if len(sub) == 0 {
			fr.requireASCII(s, "strings.Count")
			return len(s) + 1
		}
		n := 0
		for i := 0; i+len(sub) <= len(s); {
			hit := false
			switch q := elemsEq(s[i:i+len(sub)], sub).(type) {
			case bool:
				hit = q
			case symv:
				hit = fr.px().branch(q.t)
			}
			if hit {
				n++
				i += len(sub)
			} else {
				i++
			}
		}
		return n
	}
	E["internal/bytealg.IndexString"] = E["strings.Index"]
	E["internal/bytealg.Index"] = func(fr *frame, args []value) value {
		return indexStr(fr, args[0].([]value), args[1].([]value))
	}
	E["bytes.Index"] = E["internal/bytealg.Index"]
	E["strings.Contains"] = func(fr *frame, args []value) value {
		r := indexStr(fr, strElems(args[0]), strElems(args[1]))
		return r.(int) >= 0
	}
	E["strings.ToLower"] = func(fr *frame, args []value) value {
		s := strElems(args[0])
		fr.requireASCII(s, "strings.ToLower")
		out := make([]value, len(s))
		for i, e := range s {
			out[i] = lowerElem(e, false)
		}
		return mkStr(out)
	}
	E["strings.TrimSpace"] = func(fr *frame, args []value) value {
		str, isStr := args[0].(string)
		if isStr {
			return strings.TrimSpace(str)
		}
		s := strElems(args[0])
		fr.requireASCII(s, "strings.TrimSpace")
		isSp := func(e value) *Term {
			t := termOf(e)
			return mkOr(mkAnd(bvCmp("bvuge", t, mkBV(8, 9)), bvCmp("bvule", t, mkBV(8, 13))), mkEq(t, mkBV(8, 32)))
		}
		px := fr.px()
		// first non-space from the left
		var conds []*Term
		pre := tTrue
		for _, e := range s {
			sp := isSp(e)
			conds = append(conds, mkAnd(pre, mkNot(sp)))
			pre = mkAnd(pre, sp)
		}
		conds = append(conds, pre) // all space
		start := px.decideX(conds, true)
		if start == len(s) {
			return ""
		}
		conds = nil
		pre = tTrue
		for j := len(s) - 1; j >= start; j-- {
			sp := isSp(s[j])
			conds = append(conds, mkAnd(pre, mkNot(sp)))
			pre = mkAnd(pre, sp)
		}
		k := px.decideX(conds, true)
		return mkStr(append([]value(nil), s[start:len(s)-k]...))
	}
	E["strings.ToUpper"] = func(fr *frame, args []value) value {
		s := strElems(args[0])
		fr.requireASCII(s, "strings.ToUpper")
		out := make([]value, len(s))
		for i, e := range s {
			out[i] = lowerElem(e, true)
		}
		return mkStr(out)
	}
	E["strings.EqualFold"] = func(fr *frame, args []value) value {
		a, b := strElems(args[0]), strElems(args[1])
		fr.requireASCII(a, "strings.EqualFold")
		fr.requireASCII(b, "strings.EqualFold")
		if len(a) != len(b) {
			return false
		}
		la := make([]value, len(a))
		lb := make([]value, len(b))
		for i := range a {
			la[i] = lowerElem(a[i], false)
			lb[i] = lowerElem(b[i], false)
		}
		return elemsEq(la, lb)
	}
	// --- strings.Builder (uses unsafe in the real implementation)
	sbBuf := func(recv value) *value {
		p := recv.(*value)
		if p == nil {
			panic(rtErr(nil, "nil *strings.Builder"))
		}
		s := (*p).(structure)
		return &s[1]
	}
	E["(*strings.Builder).WriteString"] = func(fr *frame, args []value) value {
		b := sbBuf(args[0])
		cur, _ := (*b).([]value)
		if rp, ok := args[1].(*rope); ok && rp.done == nil {
			// keep lazily rendered numbers lazy; the reported length is not inspected by callers here
			*b = append(cur, rp.parts...)
			return tuple{len(rp.parts), iface{}}
		}
		*b = append(cur, strElems(args[1])...)
		return tuple{strLen(args[1]), iface{}}
	}
	E["(*strings.Builder).WriteByte"] = func(fr *frame, args []value) value {
		b := sbBuf(args[0])
		cur, _ := (*b).([]value)
		*b = append(cur, args[1])
		return iface{}
	}
	E["(*strings.Builder).WriteRune"] = func(fr *frame, args []value) value {
		b := sbBuf(args[0])
		cur, _ := (*b).([]value)
		r, ok := args[1].(int32)
		if !ok {
			if sv, ok := args[1].(symv); ok {
				// symbolic rune known to be ASCII only if it came from our string iterator
				*b = append(cur, mkVal(bvExtract(7, 0, sv.t), types.Uint8))
				return tuple{int(1), iface{}}
			}
			panic(engineError{"WriteRune"})
		}
		s := string(r)
		*b = append(cur, strElems(s)...)
		return tuple{len(s), iface{}}
	}
	E["(*strings.Builder).Write"] = func(fr *frame, args []value) value {
		b := sbBuf(args[0])
		cur, _ := (*b).([]value)
		*b = append(cur, args[1].([]value)...)
		return tuple{len(args[1].([]value)), iface{}}
	}
	E["(*strings.Builder).String"] = func(fr *frame, args []value) value {
		b := sbBuf(args[0])
		cur, _ := (*b).([]value)
		return mkRope(cur)
	}
	E["(*strings.Builder).Len"] = func(fr *frame, args []value) value {
		b := sbBuf(args[0])
		cur, _ := (*b).([]value)
		return len(cur)
	}
	E["(*strings.Builder).Grow"] = func(fr *frame, args []value) value { return nil }
	E["(*strings.Builder).Reset"] = func(fr *frame, args []value) value {
		*sbBuf(args[0]) = []value(nil)
		return nil
	}
	E["strings.Join"] = func(fr *frame, args []value) value {
		parts := args[0].([]value)
		sep := strElems(args[1])
		var out []value
		for i, p := range parts {
			if i > 0 {
				out = append(out, sep...)
			}
			out = append(out, strElems(p)...)
		}
		return mkStr(out)
	}
	E["strings.Repeat"] = func(fr *frame, args []value) value {
		s, ok := args[0].(string)
		if !ok {
			panic(engineError{"strings.Repeat symbolic"})
		}
		return strings.Repeat(s, int(asInt64(args[1])))
	}
	// --- hashes
	E["github.com/cometbft/cometbft/crypto/tmhash.Sum"] = func(fr *frame, args []value) value {
		return fr.uninterpretedHash("sha256", args[0].([]value), 32, func(b []byte) []byte { h := sha256.Sum256(b); return h[:] })
	}
	E["crypto/sha256.Sum256"] = func(fr *frame, args []value) value {
		return array(fr.uninterpretedHash("sha256", args[0].([]value), 32, func(b []byte) []byte { h := sha256.Sum256(b); return h[:] }))
	}
	// --- time / os / sync
	E["time.Now"] = func(fr *frame, args []value) value {
		panic(engineError{"time.Now reached (wall-clock dependence)"})
	}
	E["time.now"] = E["time.Now"]
	E["time.Sleep"] = func(fr *frame, args []value) value { return nil }
	_ = time.Now
	for _, n := range []string{"(*sync.Mutex).Lock", "(*sync.Mutex).Unlock", "(*sync.RWMutex).Lock", "(*sync.RWMutex).Unlock",
		"(*sync.RWMutex).RLock", "(*sync.RWMutex).RUnlock"} {
		E[n] = func(fr *frame, args []value) value { return nil }
	}
	E["(*sync.Once).Do"] = func(fr *frame, args []value) value {
		p := args[0].(*value)
		s := (*p).(structure)
		// field 0: done (atomic.Uint32 / uint32 depending on version): use our own marker
		if _, done := s[0].(onceDone); done {
			return nil
		}
		s[0] = onceDone{}
		call(fr.i, fr, 0, args[1], nil)
		return nil
	}
	E["os.Getenv"] = func(fr *frame, args []value) value { return "" }
	E["os.LookupEnv"] = func(fr *frame, args []value) value { return tuple{"", false} }
	E["runtime.SetFinalizer"] = func(fr *frame, args []value) value { return nil }
	E["runtime.KeepAlive"] = func(fr *frame, args []value) value { return nil }
	// --- errors
	E["github.com/pkg/errors.Is"] = func(fr *frame, args []value) value { return externals["errors.Is"](fr, args) }
	E["errors.Is"] = func(fr *frame, args []value) value {
		return fr.i.errorsIs(fr, args[0].(iface), args[1].(iface), 0)
	}
	E["errors.Unwrap"] = func(fr *frame, args []value) value {
		return fr.i.unwrapErr(fr, args[0].(iface))
	}
	E["errors.As"] = func(fr *frame, args []value) value {
		return fr.i.errorsAs(fr, args[0].(iface), args[1].(iface))
	}
}

type onceDone struct{}

func (i *interpreter) unwrapErr(fr *frame, e iface) iface {
	if e.t == nil {
		return iface{}
	}
	if ee, ok := e.v.(*engErr); ok {
		return ee.cause
	}
	if r, ok := i.callMethod(fr, e.t, e.v, "Unwrap"); ok {
		if ri, ok := r.(iface); ok {
			return ri
		}
	}
	if r, ok := i.callMethod(fr, e.t, e.v, "Cause"); ok {
		if ri, ok := r.(iface); ok {
			return ri
		}
	}
	return iface{}
}

func comparableDyn(t types.Type) bool { return types.Comparable(t) }

func (i *interpreter) errorsIs(fr *frame, err, target iface, depth int) value {
	if depth > 20 {
		panic(engineError{"errors.Is chain too deep"})
	}
	if err.t == nil || target.t == nil {
		return err.t == nil && target.t == nil
	}
	for cur := err; cur.t != nil; cur = i.unwrapErr(fr, cur) {
		if sameType(cur.t, target.t) && comparableDyn(cur.t) {
			if b, ok := equalsV(cur.t, cur.v, target.v).(bool); ok && b {
				return true
			}
		}
		// method Is(error) bool
		ms := i.prog.MethodSets.MethodSet(cur.t)
		for k := 0; k < ms.Len(); k++ {
			sel := ms.At(k)
			if sel.Obj().Name() == "Is" {
				if fn := i.prog.MethodValue(sel); fn != nil && fn.Signature.Params().Len() == 1 {
					if r, ok := call(i, fr, 0, fn, []value{cur.v, target}).(bool); ok && r {
						return true
					}
				}
			}
		}
		depth++
		if depth > 20 {
			break
		}
	}
	return false
}

func (i *interpreter) errorsAs(fr *frame, err, target iface) value {
	// target is a non-nil pointer to a type implementing error or to an interface
	pt, ok := target.t.Underlying().(*types.Pointer)
	if !ok {
		panic(engineError{"errors.As target"})
	}
	want := pt.Elem()
	for cur := err; cur.t != nil; cur = i.unwrapErr(fr, cur) {
		if _, isIface := want.Underlying().(*types.Interface); isIface {
			if types.Implements(cur.t, want.Underlying().(*types.Interface)) {
				*(target.v.(*value)) = cur
				return true
			}
		} else if types.Identical(cur.t, want) {
			store(want, target.v.(*value), cur.v)
			return true
		}
	}
	return false
}

func init() {
	sortSlice := func(fr *frame, args []value) value {
		x := args[0].(iface)
		s, ok := x.v.([]value)
		if !ok {
			panic(engineError{"sort.Slice on non-slice"})
		}
		less := args[1]
		for i := 1; i < len(s); i++ {
			for j := i; j > 0; j-- {
				r := call(fr.i, fr, 0, less, []value{j, j - 1})
				var lt bool
				switch b := r.(type) {
				case bool:
					lt = b
				case symv:
					lt = fr.px().branch(b.t)
				}
				if !lt {
					break
				}
				s[j], s[j-1] = s[j-1], s[j]
			}
		}
		return nil
	}
	externals["sort.Slice"] = sortSlice
	externals["sort.SliceStable"] = sortSlice
}

func sameLazyElems(a, b []value) bool {
	if len(a) != len(b) {
		return false
	}
	for i := range a {
		la, oka := a[i].(lazyDec)
		lb, okb := b[i].(lazyDec)
		if oka != okb {
			return false
		}
		if oka {
			if !la.sameTerm(lb) {
				return false
			}
			continue
		}
		sa, oka := a[i].(symv)
		sb, okb := b[i].(symv)
		if oka != okb {
			return false
		}
		if oka {
			if sa.t != sb.t {
				return false
			}
		} else if a[i] != b[i] {
			return false
		}
	}
	return true
}

func init() {
	keccakConcat := func(args []value) []value {
		var pre []value
		for _, p := range args[0].([]value) {
			pre = append(pre, p.([]value)...)
		}
		return pre
	}
	externals["github.com/ethereum/go-ethereum/crypto.Keccak256"] = func(fr *frame, args []value) value {
		return fr.uninterpretedHash("keccak256", keccakConcat(args), 32, keccak256)
	}
	externals["github.com/ethereum/go-ethereum/crypto.Keccak256Hash"] = func(fr *frame, args []value) value {
		return array(fr.uninterpretedHash("keccak256", keccakConcat(args), 32, keccak256))
	}
}

// Signatures: secp256k1 is modelled through harness keys. rtsig.SignEth(hash, i) yields 65 opaque
// bytes tied to (protected digest, key i); SigToPub recovers key i's address from exactly that
// digest, some unregistered address from any other digest (unforgeability assumption), and fails
// on bytes that were not produced by SignEth.
type recoveredKey struct {
	addr []value
}

type sigRec struct {
	digest []value // keccak256(prefix || hash) as computed by the hash model
	sig    []value
	key    int
}

var harnessKeyAddr = [3]string{
	"a022369adf0747e15f3557cd7a3fbf6298ab7980",
	"66282c9de6a57192934c0516cc8767f8ec8d9f1c",
	"eb65fdde895520490f8c43776e0795877e63f967",
}

func hexToElems(h string) []value {
	out := make([]value, len(h)/2)
	for i := range out {
		var b byte
		fmt.Sscanf(h[2*i:2*i+2], "%02x", &b)
		out[i] = b
	}
	return out
}

func init() {
	cryptoPkg := "github.com/ethereum/go-ethereum/crypto"
	externals["github.com/functionx/fx-core/v8/zzverif/rtsig.SignEth"] = func(fr *frame, args []value) value {
		px := fr.px()
		hash := args[0].([]value)
		k := int(asInt64(args[1]))
		pre := append(strElems("\x19Ethereum Signed Message:\n32"), hash...)
		digest := fr.uninterpretedHash("keccak256", pre, 32, keccak256)
		sig := make([]value, 65)
		for j := range sig {
			sig[j] = symv{t: px.freshVar("", bvSort(8)), k: types.Uint8}
		}
		// v byte is 0 or 1 in go-ethereum's format
		px.assertPC(bvCmp("bvule", termOf(sig[64]), mkBV(8, 1)))
		px.sigs = append(px.sigs, sigRec{digest: digest, sig: sig, key: k})
		px.w.ex.noteAssumption("secp256k1: a signature made by harness key i over digest d recovers key i's address from d and an unregistered address from any other digest; other byte strings fail recovery")
		return sig
	}
	externals[cryptoPkg+".SigToPub"] = func(fr *frame, args []value) value {
		digest := args[0].([]value)
		sig := args[1].([]value)
		px := fr.px()
		fail := tuple{(*value)(nil), fr.i.newError("recovery failed", iface{})}
		if len(sig) != 65 {
			return fail
		}
		for _, r := range px.sigs {
			// same signature bytes (first 64 identical terms; the v byte may have been normalised)
			if !sameElems(r.sig[:64], sig[:64]) {
				// not the same terms: the bytes may still be equal (e.g. after a hex round trip)
				se := elemsEq(r.sig[:64], sig[:64])
				isSame := false
				switch c := se.(type) {
				case bool:
					isSame = c
				case symv:
					isSame = px.branch(c.t)
				}
				if !isSame {
					continue
				}
			}
			var addr []value
			eq := elemsEq(r.digest, digest)
			same := false
			switch c := eq.(type) {
			case bool:
				same = c
			case symv:
				same = px.branch(c.t)
			}
			if same {
				addr = hexToElems(harnessKeyAddr[r.key])
			} else {
				addr = make([]value, 20)
				for j := range addr {
					addr[j] = symv{t: px.freshVar("", bvSort(8)), k: types.Uint8}
				}
				for _, ka := range harnessKeyAddr {
					ne := elemsEq(addr, hexToElems(ka))
					px.assertPC(mkNot(termOf(ne)))
				}
			}
			pkT := fr.i.prog.ImportedPackage("crypto/ecdsa").Type("PublicKey").Type()
			st := zero(pkT).(structure)
			var cell value = recoveredKey{addr: addr}
			*fr.i.structField(pkT, st, "X") = &cell
			var v value = st
			return tuple{&v, iface{}}
		}
		return fail
	}
	externals[cryptoPkg+".PubkeyToAddress"] = func(fr *frame, args []value) value {
		st := args[0].(structure)
		pkT := fr.i.prog.ImportedPackage("crypto/ecdsa").Type("PublicKey").Type()
		xp, _ := (*fr.i.structField(pkT, st, "X")).(*value)
		if xp == nil {
			panic(rtErr(fr.i, "invalid memory address or nil pointer dereference (empty public key)"))
		}
		rk, ok := (*xp).(recoveredKey)
		if !ok {
			panic(engineError{"PubkeyToAddress on a key that was not produced by SigToPub"})
		}
		return array(append([]value{}, rk.addr...))
	}
}
