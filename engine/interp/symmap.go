package interp

// Maps whose keys may be symbolic: the Go map keeps concrete keys, a per-map side list keeps
// entries with symbolic keys; lookups compare symbolically and fork.

import (
	"go/types"
	"reflect"
)

type symEntry struct {
	k, v value
}

func mapID(m map[value]value) uintptr { return reflect.ValueOf(m).Pointer() }

func (px *pathCtx) sideOf(m map[value]value, create bool) *[]symEntry {
	if px == nil {
		return nil
	}
	if px.symMaps == nil {
		if !create {
			return nil
		}
		px.symMaps = map[uintptr]*[]symEntry{}
	}
	id := mapID(m)
	s := px.symMaps[id]
	if s == nil && create {
		s = &[]symEntry{}
		px.symMaps[id] = s
		px.symMapKeep = append(px.symMapKeep, m) // keep the map alive so the id is not reused
	}
	return s
}

func symKey(k value) bool {
	switch k.(type) {
	case symv, sstr:
		return true
	}
	return false
}

// keyEq decides (forking if needed) whether two keys are equal.
func (fr *frame) keyEq(a, b value) bool {
	var r value
	if isStr(a) && isStr(b) {
		r = strEq(a, b)
	} else if isStr(a) != isStr(b) {
		return false
	} else {
		ka, oka := valueKind(a)
		kb, okb := valueKind(b)
		if !oka || !okb {
			return a == b
		}
		if ka != kb {
			return false
		}
		r = equalsV(types.Typ[ka], a, b)
	}
	switch c := r.(type) {
	case bool:
		return c
	case symv:
		return fr.px().branch(c.t)
	}
	return false
}

// mapFind returns the stored value for k. where: 0 = absent, 1 = concrete entry (key ck), 2 = side entry idx.
func (fr *frame) mapFind(m map[value]value, k value) (v value, where int, ck value, idx int) {
	if m == nil {
		return nil, 0, nil, 0
	}
	side := fr.i.px.sideOf(m, false)
	if !symKey(k) {
		if v, ok := m[k]; ok {
			return v, 1, k, 0
		}
		if side == nil {
			return nil, 0, nil, 0
		}
		for j, e := range *side {
			if fr.keyEq(e.k, k) {
				return e.v, 2, nil, j
			}
		}
		return nil, 0, nil, 0
	}
	// symbolic key: compare with every concrete key (deterministic order) and side entry
	for _, key := range sortedKeys(m) {
		if fr.keyEq(key, k) {
			return m[key], 1, key, 0
		}
	}
	if side != nil {
		for j, e := range *side {
			if fr.keyEq(e.k, k) {
				return e.v, 2, nil, j
			}
		}
	}
	return nil, 0, nil, 0
}

func sortedKeys(m map[value]value) []value {
	keys := make([]value, 0, len(m))
	for k := range m {
		keys = append(keys, k)
	}
	// simple insertion sort on a printable form for determinism across runs
	for i := 1; i < len(keys); i++ {
		for j := i; j > 0 && toString(keys[j]) < toString(keys[j-1]); j-- {
			keys[j], keys[j-1] = keys[j-1], keys[j]
		}
	}
	return keys
}

func (fr *frame) mapLookup(m map[value]value, k value) (value, bool) {
	v, where, _, _ := fr.mapFind(m, k)
	return v, where != 0
}

func (fr *frame) mapStore(m map[value]value, k, v value) {
	if m == nil {
		panic(targetPanic{iface{fr.i.runtimeErrorString, "assignment to entry in nil map"}})
	}
	_, where, ck, idx := fr.mapFind(m, k)
	switch where {
	case 1:
		m[ck] = v
	case 2:
		(*fr.i.px.sideOf(m, false))[idx].v = v
	default:
		if symKey(k) {
			side := fr.px().sideOf(m, true)
			*side = append(*side, symEntry{k, v})
		} else {
			m[k] = v
		}
	}
}

func (fr *frame) mapDelete(m map[value]value, k value) {
	if m == nil {
		return
	}
	_, where, ck, idx := fr.mapFind(m, k)
	switch where {
	case 1:
		delete(m, ck)
	case 2:
		side := fr.i.px.sideOf(m, false)
		*side = append((*side)[:idx:idx], (*side)[idx+1:]...)
	}
}

func (fr *frame) mapLen(m map[value]value) int {
	n := len(m)
	if fr != nil && fr.i.px != nil {
		if side := fr.i.px.sideOf(m, false); side != nil {
			n += len(*side)
		}
	}
	return n
}

// symMapIter ranges over concrete entries (sorted for reproducible path prefixes) then side entries.
type symMapIter struct {
	items []symEntry
	pos   int
}

func (it *symMapIter) next() tuple {
	if it.pos >= len(it.items) {
		return []value{false, nil, nil}
	}
	e := it.items[it.pos]
	it.pos++
	return []value{true, e.k, e.v}
}

func (fr *frame) mapRange(m map[value]value) iter {
	var items []symEntry
	for _, k := range sortedKeys(m) {
		items = append(items, symEntry{k, m[k]})
	}
	if fr.i.px != nil {
		if side := fr.i.px.sideOf(m, false); side != nil {
			items = append(items, *side...)
		}
		if fr.i.px.mapReverse {
			// the other iteration order (Go leaves the order unspecified): see rt.SetMapOrder
			for a, b := 0, len(items)-1; a < b; a, b = a+1, b-1 {
				items[a], items[b] = items[b], items[a]
			}
		}
	}
	return &symMapIter{items: items}
}
