package interp

// go-ethereum ABI packing as an opaque, structure-preserving encoding: Pack records its argument
// list in one opaque element, Unpack returns it. Byte-level ABI layout is not modelled.

import (
	"fmt"
	"go/types"
)

type abiBlob struct {
	args []value // boxed interface values
}

const abiPkg = "github.com/ethereum/go-ethereum/accounts/abi"

func init() {
	E := externals
	E["("+abiPkg+".Arguments).NonIndexed"] = func(fr *frame, args []value) value { return args[0] }
	E["("+abiPkg+".Arguments).Pack"] = func(fr *frame, args []value) value {
		vals := args[1].([]value)
		cp := make([]value, len(vals))
		for i, v := range vals {
			cp[i] = deepCopy(v, map[*value]*value{})
		}
		return tuple{[]value{abiBlob{args: cp}}, iface{}}
	}
	E["("+abiPkg+".Arguments).Unpack"] = func(fr *frame, args []value) value {
		data := args[1].([]value)
		if len(data) == 1 {
			if b, ok := data[0].(abiBlob); ok {
				out := make([]value, len(b.args))
				for i, v := range b.args {
					out[i] = deepCopy(v, map[*value]*value{})
				}
				return tuple{out, iface{}}
			}
		}
		if len(data) == 0 {
			return tuple{[]value{}, iface{}}
		}
		panic(engineError{"abi.Unpack of raw bytes (ABI wire format not modelled)"})
	}
	E["("+abiPkg+".Arguments).Copy"] = func(fr *frame, args []value) value {
		dst := args[1].(iface)
		vals := args[2].([]value)
		p, ok := dst.v.(*value)
		if !ok || p == nil {
			return fr.i.newError("abi: Copy into non-pointer", iface{})
		}
		st, ok := (*p).(structure)
		if !ok {
			if len(vals) == 1 {
				*p = vals[0].(iface).v
				return iface{}
			}
			return fr.i.newError("abi: Copy target is not a struct", iface{})
		}
		stT, _ := mustDeref(dst.t).Underlying().(*types.Struct)
		if stT == nil || stT.NumFields() < len(vals) {
			panic(engineError{fmt.Sprintf("abi.Copy: %d values into %s", len(vals), dst.t)})
		}
		for k, v := range vals {
			iv := v.(iface)
			if !types.Identical(iv.t, stT.Field(k).Type()) {
				panic(engineError{fmt.Sprintf("abi.Copy: field %s has type %s, value %s", stT.Field(k).Name(), stT.Field(k).Type(), iv.t)})
			}
			st[k] = copyVal(iv.v)
		}
		return iface{}
	}
}
