package interp

// go-ethereum ABI packing as an opaque, structure-preserving encoding: Pack records its argument
// list in one opaque element, Unpack returns it. Byte-level ABI layout is not modelled.

import (
	"encoding/json"
	"fmt"
	"go/types"
	"strings"
)

type abiBlob struct {
	args []value // boxed interface values
}

const abiPkg = "github.com/ethereum/go-ethereum/accounts/abi"

func init() {
	E := externals
	E["("+abiPkg+".Arguments).NonIndexed"] = func(fr *frame, args []value) value { return args[0] }
	E["("+abiPkg+".Arguments).Pack"] = func(fr *frame, args []value) value {
		vals := args[1].([]value)
		cp := make([]value, len(vals))
		for i, v := range vals {
			cp[i] = deepCopy(v, map[*value]*value{})
		}
		return tuple{[]value{abiBlob{args: cp}}, iface{}}
	}
	E["("+abiPkg+".Arguments).Unpack"] = func(fr *frame, args []value) value {
		data := args[1].([]value)
		if len(data) == 1 {
			if b, ok := data[0].(abiBlob); ok {
				out := make([]value, len(b.args))
				for i, v := range b.args {
					out[i] = deepCopy(v, map[*value]*value{})
				}
				return tuple{out, iface{}}
			}
		}
		if len(data) == 0 {
			return tuple{[]value{}, iface{}}
		}
		panic(engineError{"abi.Unpack of raw bytes (ABI wire format not modelled)"})
	}
	E["("+abiPkg+".Arguments).Copy"] = func(fr *frame, args []value) value {
		dst := args[1].(iface)
		vals := args[2].([]value)
		p, ok := dst.v.(*value)
		if !ok || p == nil {
			return fr.i.newError("abi: Copy into non-pointer", iface{})
		}
		st, ok := (*p).(structure)
		if !ok {
			if len(vals) == 1 {
				*p = vals[0].(iface).v
				return iface{}
			}
			return fr.i.newError("abi: Copy target is not a struct", iface{})
		}
		stT, _ := mustDeref(dst.t).Underlying().(*types.Struct)
		if stT == nil || stT.NumFields() < len(vals) {
			panic(engineError{fmt.Sprintf("abi.Copy: %d values into %s", len(vals), dst.t)})
		}
		for k, v := range vals {
			iv := v.(iface)
			if !types.Identical(iv.t, stT.Field(k).Type()) {
				panic(engineError{fmt.Sprintf("abi.Copy: field %s has type %s, value %s", stT.Field(k).Name(), stT.Field(k).Type(), iv.t)})
			}
			st[k] = copyVal(iv.v)
		}
		return iface{}
	}
}

// ---------------------------------------------------------------------------------------------
// abi.JSON: parse the contract ABI natively and build the abi.ABI value (names, argument lists,
// signatures, 4-byte selectors and event ids); argument Types stay zero (packing is opaque).

type abiJSONArg struct {
	Name       string       `json:"name"`
	Type       string       `json:"type"`
	Indexed    bool         `json:"indexed"`
	Components []abiJSONArg `json:"components"`
}

type abiJSONEntry struct {
	Type            string       `json:"type"`
	Name            string       `json:"name"`
	Inputs          []abiJSONArg `json:"inputs"`
	Outputs         []abiJSONArg `json:"outputs"`
	StateMutability string       `json:"stateMutability"`
	Anonymous       bool         `json:"anonymous"`
}

func abiCanonType(a abiJSONArg) string {
	if strings.HasPrefix(a.Type, "tuple") {
		var parts []string
		for _, c := range a.Components {
			parts = append(parts, abiCanonType(c))
		}
		return "(" + strings.Join(parts, ",") + ")" + strings.TrimPrefix(a.Type, "tuple")
	}
	return a.Type
}

func (i *interpreter) mkStruct(t types.Type, fields map[string]value) structure {
	st := zero(t).(structure)
	ut := t.Underlying().(*types.Struct)
	for k := 0; k < ut.NumFields(); k++ {
		if v, ok := fields[ut.Field(k).Name()]; ok {
			st[k] = v
		}
	}
	return st
}

func init() {
	externals[abiPkg+".JSON"] = func(fr *frame, args []value) value {
		rd := args[0].(iface)
		// *strings.Reader{s string, i int64, prevRune int}
		p, ok := rd.v.(*value)
		if !ok || p == nil {
			panic(engineError{"abi.JSON: reader is not a *strings.Reader"})
		}
		src, ok := (*p).(structure)[0].(string)
		if !ok {
			panic(engineError{"abi.JSON: reader is not a *strings.Reader"})
		}
		var entries []abiJSONEntry
		pkg := fr.i.prog.ImportedPackage(abiPkg)
		abiT := pkg.Type("ABI").Type()
		if err := json.Unmarshal([]byte(src), &entries); err != nil {
			return tuple{zero(abiT), fr.i.newError("abi.JSON: "+err.Error(), iface{})}
		}
		methodT, eventT, argT := pkg.Type("Method").Type(), pkg.Type("Event").Type(), pkg.Type("Argument").Type()
		mkArgs := func(as []abiJSONArg) []value {
			out := make([]value, 0, len(as))
			for _, a := range as {
				out = append(out, fr.i.mkStruct(argT, map[string]value{"Name": a.Name, "Indexed": a.Indexed}))
			}
			return out
		}
		sig := func(name string, as []abiJSONArg) string {
			var parts []string
			for _, a := range as {
				parts = append(parts, abiCanonType(a))
			}
			return name + "(" + strings.Join(parts, ",") + ")"
		}
		methods := map[value]value{}
		events := map[value]value{}
		fields := map[string]value{}
		for _, e := range entries {
			switch e.Type {
			case "function", "":
				s := sig(e.Name, e.Inputs)
				id := keccak256([]byte(s))[:4]
				name := e.Name
				for k := 0; ; k++ { // overloaded names get a numeric suffix like go-ethereum
					if _, dup := methods[name]; !dup {
						break
					}
					name = fmt.Sprintf("%s%d", e.Name, k)
				}
				methods[name] = fr.i.mkStruct(methodT, map[string]value{"Name": name, "RawName": e.Name, "StateMutability": e.StateMutability,
					"Constant": e.StateMutability == "view" || e.StateMutability == "pure", "Payable": e.StateMutability == "payable",
					"Inputs": mkArgs(e.Inputs), "Outputs": mkArgs(e.Outputs), "Sig": s, "str": s, "ID": bytesToElems(id)})
			case "event":
				s := sig(e.Name, e.Inputs)
				id := keccak256([]byte(s))
				name := e.Name
				for k := 0; ; k++ {
					if _, dup := events[name]; !dup {
						break
					}
					name = fmt.Sprintf("%s%d", e.Name, k)
				}
				events[name] = fr.i.mkStruct(eventT, map[string]value{"Name": name, "RawName": e.Name, "Anonymous": e.Anonymous,
					"Inputs": mkArgs(e.Inputs), "Sig": s, "str": s, "ID": array(bytesToElems(id))})
			case "constructor":
				fields["Constructor"] = fr.i.mkStruct(methodT, map[string]value{"Inputs": mkArgs(e.Inputs)})
			}
		}
		fields["Methods"] = methods
		fields["Events"] = events
		fields["Errors"] = map[value]value{}
		return tuple{fr.i.mkStruct(abiT, fields), iface{}}
	}
	// packing through the ABI / Method objects
	externals["("+abiPkg+".ABI).Pack"] = func(fr *frame, args []value) value {
		abiV := args[0].(structure)
		name := args[1].(string)
		abiT := fr.i.prog.ImportedPackage(abiPkg).Type("ABI").Type().Underlying().(*types.Struct)
		var methods map[value]value
		for k := 0; k < abiT.NumFields(); k++ {
			if abiT.Field(k).Name() == "Methods" {
				methods, _ = abiV[k].(map[value]value)
			}
		}
		vals := args[2].([]value)
		cp := make([]value, len(vals))
		for i, v := range vals {
			cp[i] = deepCopy(v, map[*value]*value{})
		}
		if name == "" {
			return tuple{[]value{abiBlob{args: cp}}, iface{}}
		}
		m, ok := methods[name]
		if !ok {
			return tuple{[]value(nil), fr.i.newError("method '"+name+"' not found", iface{})}
		}
		mT := fr.i.prog.ImportedPackage(abiPkg).Type("Method").Type().Underlying().(*types.Struct)
		var id []value
		for k := 0; k < mT.NumFields(); k++ {
			if mT.Field(k).Name() == "ID" {
				id, _ = m.(structure)[k].([]value)
			}
		}
		out := append(append([]value{}, id...), abiBlob{args: cp})
		return tuple{out, iface{}}
	}
}

// ---------------------------------------------------------------------------------------------
// go-ethereum core/vm.Contract (call frame as seen by a precompile)

const vmPkg = "github.com/ethereum/go-ethereum/core/vm"

func (i *interpreter) structField(t types.Type, st structure, name string) *value {
	ut := t.Underlying().(*types.Struct)
	for k := 0; k < ut.NumFields(); k++ {
		if ut.Field(k).Name() == name {
			return &st[k]
		}
	}
	panic(engineError{"no field " + name + " in " + t.String()})
}

func init() {
	E := externals
	contractT := func(fr *frame) types.Type { return fr.i.prog.ImportedPackage(vmPkg).Type("Contract").Type() }
	refAddr := func(fr *frame, ref value) value {
		r := ref.(iface)
		if r.t == nil {
			panic(rtErr(fr.i, "invalid memory address or nil pointer dereference (nil ContractRef)"))
		}
		// vm.AccountRef is a common.Address
		if a, ok := r.v.(array); ok {
			return copyVal(a)
		}
		if res, ok := fr.i.callMethod(fr, r.t, r.v, "Address"); ok {
			return res
		}
		panic(engineError{"ContractRef.Address on " + r.t.String()})
	}
	E[vmPkg+".NewContract"] = func(fr *frame, args []value) value {
		t := contractT(fr)
		st := zero(t).(structure)
		*fr.i.structField(t, st, "CallerAddress") = refAddr(fr, args[0])
		*fr.i.structField(t, st, "caller") = args[0]
		*fr.i.structField(t, st, "self") = args[1]
		*fr.i.structField(t, st, "value") = args[2]
		*fr.i.structField(t, st, "Gas") = args[3]
		var v value = st
		return &v
	}
	cget := func(name string) externalFn {
		return func(fr *frame, args []value) value {
			p := args[0].(*value)
			if p == nil {
				panic(rtErr(fr.i, "invalid memory address or nil pointer dereference (nil *vm.Contract)"))
			}
			return *fr.i.structField(contractT(fr), (*p).(structure), name)
		}
	}
	E["(*"+vmPkg+".Contract).Caller"] = func(fr *frame, args []value) value {
		return copyVal(cget("CallerAddress")(fr, args))
	}
	E["(*"+vmPkg+".Contract).Value"] = cget("value")
	E["(*"+vmPkg+".Contract).Address"] = func(fr *frame, args []value) value {
		return refAddr(fr, cget("self")(fr, args))
	}
	E["("+vmPkg+".AccountRef).Address"] = func(fr *frame, args []value) value { return copyVal(args[0]) }
}

func init() {
	// abi.UnpackRevert on data too short to carry a revert reason (what the EVM model returns)
	externals["github.com/ethereum/go-ethereum/accounts/abi.UnpackRevert"] = func(fr *frame, args []value) value {
		data, _ := args[0].([]value)
		if len(data) < 4 {
			return tuple{"", fr.i.newError("invalid data for unpacking", iface{})}
		}
		panic(engineError{"abi.UnpackRevert on revert data not modelled"})
	}
}
