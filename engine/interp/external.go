// Copyright 2013 The Go Authors. All rights reserved.
// Use of this source code is governed by a BSD-style
// license that can be found in the LICENSE file.

package interp

// Emulated functions that we cannot interpret because they are
// external or because they use "unsafe" or "reflect" operations.

import (
	"bytes"
	"go/types"
	"math"
	"os"
	"runtime"
	"sort"
	"strconv"
	"strings"
	"time"
	"unicode/utf8"
)

type externalFn func(fr *frame, args []value) value

// TODO(adonovan): fix: reflect.Value abstracts an lvalue or an
// rvalue; Set() causes mutations that can be observed via aliases.
// We have not captured that correctly here.

// Key strings are from Function.String().
var externals = make(map[string]externalFn)

func init() {
	// That little dot ۰ is an Arabic zero numeral (U+06F0), categories [Nd].
	for k, v := range map[string]externalFn{
		"(reflect.Value).Bool":                ext۰reflect۰Value۰Bool,
		"(reflect.Value).CanAddr":             ext۰reflect۰Value۰CanAddr,
		"(reflect.Value).CanInterface":        ext۰reflect۰Value۰CanInterface,
		"(reflect.Value).Elem":                ext۰reflect۰Value۰Elem,
		"(reflect.Value).Field":               ext۰reflect۰Value۰Field,
		"(reflect.Value).Float":               ext۰reflect۰Value۰Float,
		"(reflect.Value).Index":               ext۰reflect۰Value۰Index,
		"(reflect.Value).Int":                 ext۰reflect۰Value۰Int,
		"(reflect.Value).Interface":           ext۰reflect۰Value۰Interface,
		"(reflect.Value).IsNil":               ext۰reflect۰Value۰IsNil,
		"(reflect.Value).IsValid":             ext۰reflect۰Value۰IsValid,
		"(reflect.Value).Kind":                ext۰reflect۰Value۰Kind,
		"(reflect.Value).Len":                 ext۰reflect۰Value۰Len,
		"(reflect.Value).MapIndex":            ext۰reflect۰Value۰MapIndex,
		"(reflect.Value).MapKeys":             ext۰reflect۰Value۰MapKeys,
		"(reflect.Value).NumField":            ext۰reflect۰Value۰NumField,
		"(reflect.Value).NumMethod":           ext۰reflect۰Value۰NumMethod,
		"(reflect.Value).Pointer":             ext۰reflect۰Value۰Pointer,
		"(reflect.Value).Set":                 ext۰reflect۰Value۰Set,
		"(reflect.Value).String":              ext۰reflect۰Value۰String,
		"(reflect.Value).Type":                ext۰reflect۰Value۰Type,
		"(reflect.Value).Uint":                ext۰reflect۰Value۰Uint,
		"(reflect.error).Error":               ext۰reflect۰error۰Error,
		"(reflect.rtype).Bits":                ext۰reflect۰rtype۰Bits,
		"(reflect.rtype).Elem":                ext۰reflect۰rtype۰Elem,
		"(reflect.rtype).Field":               ext۰reflect۰rtype۰Field,
		"(reflect.rtype).In":                  ext۰reflect۰rtype۰In,
		"(reflect.rtype).Kind":                ext۰reflect۰rtype۰Kind,
		"(reflect.rtype).NumField":            ext۰reflect۰rtype۰NumField,
		"(reflect.rtype).NumIn":               ext۰reflect۰rtype۰NumIn,
		"(reflect.rtype).NumMethod":           ext۰reflect۰rtype۰NumMethod,
		"(reflect.rtype).NumOut":              ext۰reflect۰rtype۰NumOut,
		"(reflect.rtype).Out":                 ext۰reflect۰rtype۰Out,
		"(reflect.rtype).Size":                ext۰reflect۰rtype۰Size,
		"(reflect.rtype).String":              ext۰reflect۰rtype۰String,
		"bytes.Equal":                         ext۰bytes۰Equal,
		"bytes.IndexByte":                     ext۰bytes۰IndexByte,
		"fmt.Sprint":                          ext۰fmt۰Sprint,
		"math.Abs":                            ext۰math۰Abs,
		"math.Copysign":                       ext۰math۰Copysign,
		"math.Exp":                            ext۰math۰Exp,
		"math.Float32bits":                    ext۰math۰Float32bits,
		"math.Float32frombits":                ext۰math۰Float32frombits,
		"math.Float64bits":                    ext۰math۰Float64bits,
		"math.Float64frombits":                ext۰math۰Float64frombits,
		"math.Inf":                            ext۰math۰Inf,
		"math.IsNaN":                          ext۰math۰IsNaN,
		"math.Ldexp":                          ext۰math۰Ldexp,
		"math.Log":                            ext۰math۰Log,
		"math.Min":                            ext۰math۰Min,
		"math.NaN":                            ext۰math۰NaN,
		"math.Sqrt":                           ext۰math۰Sqrt,
		"os.Exit":                             ext۰os۰Exit,
		"os.Getenv":                           ext۰os۰Getenv,
		"reflect.New":                         ext۰reflect۰New,
		"reflect.SliceOf":                     ext۰reflect۰SliceOf,
		"reflect.TypeOf":                      ext۰reflect۰TypeOf,
		"reflect.ValueOf":                     ext۰reflect۰ValueOf,
		"reflect.Zero":                        ext۰reflect۰Zero,
		"runtime.Breakpoint":                  ext۰runtime۰Breakpoint,
		"runtime.GC":                          ext۰runtime۰GC,
		"runtime.GOMAXPROCS":                  ext۰runtime۰GOMAXPROCS,
		"runtime.GOROOT":                      ext۰runtime۰GOROOT,
		"runtime.Goexit":                      ext۰runtime۰Goexit,
		"runtime.Gosched":                     ext۰runtime۰Gosched,
		"runtime.NumCPU":                      ext۰runtime۰NumCPU,
		"sort.Float64s":                       ext۰sort۰Float64s,
		"sort.Ints":                           ext۰sort۰Ints,
		"sort.Strings":                        ext۰sort۰Strings,
		"strconv.Atoi":                        ext۰strconv۰Atoi,
		"strconv.FormatFloat":                 ext۰strconv۰FormatFloat,
		"strings.EqualFold":                   ext۰strings۰EqualFold,
		"strings.Index":                       ext۰strings۰Index,
		"strings.IndexByte":                   ext۰strings۰IndexByte,
		"strings.Replace":                     ext۰strings۰Replace,
		"strings.ToLower":                     ext۰strings۰ToLower,
		"time.Sleep":                          ext۰time۰Sleep,
		"unicode/utf8.DecodeRuneInString":     ext۰unicode۰utf8۰DecodeRuneInString,
		"unicode/utf8.DecodeLastRuneInString": ext۰unicode۰utf8۰DecodeLastRuneInString,
	} {
		externals[k] = v
	}
}

func ext۰bytes۰Equal(fr *frame, args []value) value {
	// func Equal(a, b []byte) bool
	a := args[0].([]value)
	b := args[1].([]value)
	if len(a) != len(b) {
		return false
	}
	for i := range a {
		if a[i] != b[i] {
			return false
		}
	}
	return true
}

func ext۰bytes۰IndexByte(fr *frame, args []value) value {
	// func IndexByte(s []byte, c byte) int
	s := args[0].([]value)
	c := args[1].(byte)
	for i, b := range s {
		if b.(byte) == c {
			return i
		}
	}
	return -1
}

func ext۰math۰Float64frombits(fr *frame, args []value) value {
	return math.Float64frombits(args[0].(uint64))
}

func ext۰math۰Float64bits(fr *frame, args []value) value {
	return math.Float64bits(args[0].(float64))
}

func ext۰math۰Float32frombits(fr *frame, args []value) value {
	return math.Float32frombits(args[0].(uint32))
}

func ext۰math۰Abs(fr *frame, args []value) value {
	return math.Abs(args[0].(float64))
}

func ext۰math۰Copysign(fr *frame, args []value) value {
	return math.Copysign(args[0].(float64), args[1].(float64))
}

func ext۰math۰Exp(fr *frame, args []value) value {
	return math.Exp(args[0].(float64))
}

func ext۰math۰Float32bits(fr *frame, args []value) value {
	return math.Float32bits(args[0].(float32))
}

func ext۰math۰Min(fr *frame, args []value) value {
	return math.Min(args[0].(float64), args[1].(float64))
}

func ext۰math۰NaN(fr *frame, args []value) value {
	return math.NaN()
}

func ext۰math۰IsNaN(fr *frame, args []value) value {
	return math.IsNaN(args[0].(float64))
}

func ext۰math۰Inf(fr *frame, args []value) value {
	return math.Inf(args[0].(int))
}

func ext۰math۰Ldexp(fr *frame, args []value) value {
	return math.Ldexp(args[0].(float64), args[1].(int))
}

func ext۰math۰Log(fr *frame, args []value) value {
	return math.Log(args[0].(float64))
}

func ext۰math۰Sqrt(fr *frame, args []value) value {
	return math.Sqrt(args[0].(float64))
}

func ext۰runtime۰Breakpoint(fr *frame, args []value) value {
	runtime.Breakpoint()
	return nil
}

func ext۰sort۰Ints(fr *frame, args []value) value {
	x := args[0].([]value)
	sort.Slice(x, func(i, j int) bool {
		return x[i].(int) < x[j].(int)
	})
	return nil
}
func ext۰sort۰Strings(fr *frame, args []value) value {
	x := args[0].([]value)
	sort.Slice(x, func(i, j int) bool {
		return x[i].(string) < x[j].(string)
	})
	return nil
}
func ext۰sort۰Float64s(fr *frame, args []value) value {
	x := args[0].([]value)
	sort.Slice(x, func(i, j int) bool {
		return x[i].(float64) < x[j].(float64)
	})
	return nil
}

func ext۰strconv۰Atoi(fr *frame, args []value) value {
	i, e := strconv.Atoi(args[0].(string))
	if e != nil {
		return tuple{i, iface{fr.i.runtimeErrorString, e.Error()}}
	}
	return tuple{i, iface{}}
}
func ext۰strconv۰Itoa(fr *frame, args []value) value {
	return strconv.Itoa(args[0].(int))
}
func ext۰strconv۰FormatFloat(fr *frame, args []value) value {
	return strconv.FormatFloat(args[0].(float64), args[1].(byte), args[2].(int), args[3].(int))
}

func ext۰strings۰Count(fr *frame, args []value) value {
	return strings.Count(args[0].(string), args[1].(string))
}

func ext۰strings۰EqualFold(fr *frame, args []value) value {
	return strings.EqualFold(args[0].(string), args[1].(string))
}
func ext۰strings۰IndexByte(fr *frame, args []value) value {
	return strings.IndexByte(args[0].(string), args[1].(byte))
}

func ext۰strings۰Index(fr *frame, args []value) value {
	return strings.Index(args[0].(string), args[1].(string))
}

func ext۰strings۰Replace(fr *frame, args []value) value {
	// func Replace(s, old, new string, n int) string
	s := args[0].(string)
	new := args[1].(string)
	old := args[2].(string)
	n := args[3].(int)
	return strings.Replace(s, old, new, n)
}

func ext۰strings۰ToLower(fr *frame, args []value) value {
	return strings.ToLower(args[0].(string))
}

func ext۰runtime۰GOMAXPROCS(fr *frame, args []value) value {
	// Ignore args[0]; don't let the interpreted program
	// set the interpreter's GOMAXPROCS!
	return runtime.GOMAXPROCS(0)
}

func ext۰runtime۰Goexit(fr *frame, args []value) value {
	// TODO(adonovan): don't kill the interpreter's main goroutine.
	runtime.Goexit()
	return nil
}

func ext۰runtime۰GOROOT(fr *frame, args []value) value {
	return runtime.GOROOT()
}

func ext۰runtime۰GC(fr *frame, args []value) value {
	runtime.GC()
	return nil
}

func ext۰runtime۰Gosched(fr *frame, args []value) value {
	runtime.Gosched()
	return nil
}

func ext۰runtime۰NumCPU(fr *frame, args []value) value {
	return runtime.NumCPU()
}

func ext۰time۰Sleep(fr *frame, args []value) value {
	time.Sleep(time.Duration(args[0].(int64)))
	return nil
}

func ext۰os۰Getenv(fr *frame, args []value) value {
	name := args[0].(string)
	switch name {
	case "GOSSAINTERP":
		return "1"
	}
	return os.Getenv(name)
}

func ext۰os۰Exit(fr *frame, args []value) value {
	panic(exitPanic(args[0].(int)))
}

func ext۰unicode۰utf8۰DecodeRuneInString(fr *frame, args []value) value {
	if ss, ok := args[0].(sstr); ok {
		if len(ss) == 0 {
			return tuple{int32(utf8.RuneError), int(0)}
		}
		fr.requireASCII([]value(ss[:1]), "utf8.DecodeRuneInString")
		return tuple{conv(types.Typ[types.Int32], types.Typ[types.Uint8], ss[0]), int(1)}
	}
	r, n := utf8.DecodeRuneInString(args[0].(string))
	return tuple{r, n}
}

func ext۰unicode۰utf8۰DecodeLastRuneInString(fr *frame, args []value) value {
	if ss, ok := args[0].(sstr); ok {
		if len(ss) == 0 {
			return tuple{int32(utf8.RuneError), int(0)}
		}
		fr.requireASCII([]value(ss[len(ss)-1:]), "utf8.DecodeLastRuneInString")
		return tuple{conv(types.Typ[types.Int32], types.Typ[types.Uint8], ss[len(ss)-1]), int(1)}
	}
	r, n := utf8.DecodeLastRuneInString(args[0].(string))
	return tuple{r, n}
}

// A fake function for turning an arbitrary value into a string.
// Handles only the cases needed by the tests.
// Uses same logic as 'print' built-in.
func ext۰fmt۰Sprint(fr *frame, args []value) value {
	buf := new(bytes.Buffer)
	wasStr := false
	for i, arg := range args[0].([]value) {
		x := arg.(iface).v
		_, isStr := x.(string)
		if i > 0 && !wasStr && !isStr {
			buf.WriteByte(' ')
		}
		wasStr = isStr
		buf.WriteString(toString(x))
	}
	return buf.String()
}
