package interp

// Symbolic terms: a small hash-free DAG of SMT-LIB2 expressions with constant folding.
// Sorts: Bool, BitVec(w), Int.

import (
	"fmt"
	"go/types"
	"math/big"
	"strings"
)

type sortKind int

const (
	sBool sortKind = iota
	sBV
	sInt
)

type Sort struct {
	k sortKind
	w int
}

func (s Sort) String() string {
	switch s.k {
	case sBool:
		return "Bool"
	case sBV:
		return fmt.Sprintf("(_ BitVec %d)", s.w)
	}
	return "Int"
}

var boolSort = Sort{k: sBool}
var intSort = Sort{k: sInt}

func bvSort(w int) Sort { return Sort{k: sBV, w: w} }

type Term struct {
	op   string // "const", "var", or an SMT operator
	args []*Term
	sort Sort
	c    *big.Int // const value for BV (unsigned residue) / Int; for Bool 0/1
	name string   // for var
	p1   int      // extract hi / extend amount
	p2   int      // extract lo
	id   int64
}

var termCounter int64

func newTerm(op string, sort Sort, args ...*Term) *Term {
	termCounter++
	return &Term{op: op, args: args, sort: sort, id: termCounter}
}

func (t *Term) isConst() bool { return t.op == "const" }

func mkBool(b bool) *Term {
	t := newTerm("const", boolSort)
	if b {
		t.c = big.NewInt(1)
	} else {
		t.c = big.NewInt(0)
	}
	return t
}

var (
	tTrue  = mkBool(true)
	tFalse = mkBool(false)
)

func (t *Term) isTrue() bool  { return t.isConst() && t.sort.k == sBool && t.c.Sign() != 0 }
func (t *Term) isFalse() bool { return t.isConst() && t.sort.k == sBool && t.c.Sign() == 0 }

func mask(w int) *big.Int {
	m := new(big.Int).Lsh(big.NewInt(1), uint(w))
	return m.Sub(m, big.NewInt(1))
}

func mkBVBig(w int, v *big.Int) *Term {
	t := newTerm("const", bvSort(w))
	t.c = new(big.Int).And(v, mask(w)) // And with negative v gives two's complement residue in Go's big (treats as infinite two's complement)
	return t
}

func mkBV(w int, v uint64) *Term {
	return mkBVBig(w, new(big.Int).SetUint64(v))
}

func mkIntBig(v *big.Int) *Term {
	t := newTerm("const", intSort)
	t.c = new(big.Int).Set(v)
	return t
}

func mkInt(v int64) *Term { return mkIntBig(big.NewInt(v)) }

func mkVar(name string, s Sort) *Term {
	t := newTerm("var", s)
	t.name = name
	return t
}

// signed interpretation of a BV constant
func (t *Term) signedVal() *big.Int {
	v := new(big.Int).Set(t.c)
	if v.Bit(t.sort.w-1) == 1 {
		v.Sub(v, new(big.Int).Lsh(big.NewInt(1), uint(t.sort.w)))
	}
	return v
}

func b2t(b bool) *Term {
	if b {
		return tTrue
	}
	return tFalse
}

func mkNot(a *Term) *Term {
	if a.isConst() {
		return b2t(a.c.Sign() == 0)
	}
	if a.op == "not" {
		return a.args[0]
	}
	return newTerm("not", boolSort, a)
}

func mkAnd(a, b *Term) *Term {
	if a.isFalse() || b.isFalse() {
		return tFalse
	}
	if a.isTrue() {
		return b
	}
	if b.isTrue() {
		return a
	}
	return newTerm("and", boolSort, a, b)
}

func mkOr(a, b *Term) *Term {
	if a.isTrue() || b.isTrue() {
		return tTrue
	}
	if a.isFalse() {
		return b
	}
	if b.isFalse() {
		return a
	}
	return newTerm("or", boolSort, a, b)
}

func mkImplies(a, b *Term) *Term { return mkOr(mkNot(a), b) }

func mkIte(c, a, b *Term) *Term {
	if c.isTrue() {
		return a
	}
	if c.isFalse() {
		return b
	}
	if a == b {
		return a
	}
	if a.sort != b.sort {
		panic(engineError{fmt.Sprintf("ite sort mismatch %v %v", a.sort, b.sort)})
	}
	if a.sort.k == sBool {
		if a.isTrue() && b.isFalse() {
			return c
		}
		if a.isFalse() && b.isTrue() {
			return mkNot(c)
		}
	}
	return newTerm("ite", a.sort, c, a, b)
}

func mkEq(a, b *Term) *Term {
	if a == b {
		return tTrue
	}
	if a.sort != b.sort {
		panic(engineError{fmt.Sprintf("eq sort mismatch %v %v", a.sort, b.sort)})
	}
	if a.isConst() && b.isConst() {
		return b2t(a.c.Cmp(b.c) == 0)
	}
	if a.sort.k == sBool {
		if a.isConst() {
			if a.isTrue() {
				return b
			}
			return mkNot(b)
		}
		if b.isConst() {
			if b.isTrue() {
				return a
			}
			return mkNot(a)
		}
	}
	return newTerm("=", boolSort, a, b)
}

// bvBin builds a bit-vector binary operation with folding. op is the SMT name.
func bvBin(op string, a, b *Term) *Term {
	if a.sort != b.sort || a.sort.k != sBV {
		panic(engineError{fmt.Sprintf("bv %s sort mismatch %v %v", op, a.sort, b.sort)})
	}
	w := a.sort.w
	if a.isConst() && b.isConst() {
		x, y := a.c, b.c
		r := new(big.Int)
		switch op {
		case "bvadd":
			return mkBVBig(w, r.Add(x, y))
		case "bvsub":
			return mkBVBig(w, r.Sub(x, y))
		case "bvmul":
			return mkBVBig(w, r.Mul(x, y))
		case "bvand":
			return mkBVBig(w, r.And(x, y))
		case "bvor":
			return mkBVBig(w, r.Or(x, y))
		case "bvxor":
			return mkBVBig(w, r.Xor(x, y))
		case "bvudiv":
			if y.Sign() == 0 {
				return mkBVBig(w, mask(w))
			}
			return mkBVBig(w, r.Quo(x, y))
		case "bvurem":
			if y.Sign() == 0 {
				return a
			}
			return mkBVBig(w, r.Rem(x, y))
		case "bvsdiv":
			if y.Sign() != 0 {
				return mkBVBig(w, r.Quo(a.signedVal(), b.signedVal()))
			}
		case "bvsrem":
			if y.Sign() != 0 {
				return mkBVBig(w, r.Rem(a.signedVal(), b.signedVal()))
			}
		case "bvshl":
			if y.Cmp(big.NewInt(int64(w))) >= 0 {
				return mkBV(w, 0)
			}
			return mkBVBig(w, r.Lsh(x, uint(y.Uint64())))
		case "bvlshr":
			if y.Cmp(big.NewInt(int64(w))) >= 0 {
				return mkBV(w, 0)
			}
			return mkBVBig(w, r.Rsh(x, uint(y.Uint64())))
		case "bvashr":
			sh := uint(w)
			if y.Cmp(big.NewInt(int64(w))) < 0 {
				sh = uint(y.Uint64())
			}
			return mkBVBig(w, r.Rsh(a.signedVal(), sh))
		}
	}
	// light identities
	switch op {
	case "bvadd", "bvor", "bvxor":
		if a.isConst() && a.c.Sign() == 0 {
			return b
		}
		if b.isConst() && b.c.Sign() == 0 {
			return a
		}
	case "bvsub", "bvshl", "bvlshr", "bvashr":
		if b.isConst() && b.c.Sign() == 0 {
			return a
		}
	case "bvmul":
		if a.isConst() && a.c.Cmp(big.NewInt(1)) == 0 {
			return b
		}
		if b.isConst() && b.c.Cmp(big.NewInt(1)) == 0 {
			return a
		}
		if (a.isConst() && a.c.Sign() == 0) || (b.isConst() && b.c.Sign() == 0) {
			return mkBV(w, 0)
		}
	case "bvand":
		if (a.isConst() && a.c.Sign() == 0) || (b.isConst() && b.c.Sign() == 0) {
			return mkBV(w, 0)
		}
		if a.isConst() && a.c.Cmp(mask(w)) == 0 {
			return b
		}
		if b.isConst() && b.c.Cmp(mask(w)) == 0 {
			return a
		}
	}
	return newTerm(op, a.sort, a, b)
}

func bvCmp(op string, a, b *Term) *Term {
	if a.sort != b.sort || a.sort.k != sBV {
		panic(engineError{fmt.Sprintf("bv %s sort mismatch %v %v", op, a.sort, b.sort)})
	}
	if a.isConst() && b.isConst() {
		var c int
		if strings.HasPrefix(op, "bvs") {
			c = a.signedVal().Cmp(b.signedVal())
		} else {
			c = a.c.Cmp(b.c)
		}
		switch op[3:] {
		case "lt":
			return b2t(c < 0)
		case "le":
			return b2t(c <= 0)
		case "gt":
			return b2t(c > 0)
		case "ge":
			return b2t(c >= 0)
		}
	}
	return newTerm(op, boolSort, a, b)
}

func bvNeg(a *Term) *Term {
	if a.isConst() {
		return mkBVBig(a.sort.w, new(big.Int).Neg(a.c))
	}
	return newTerm("bvneg", a.sort, a)
}

func bvNot(a *Term) *Term {
	if a.isConst() {
		return mkBVBig(a.sort.w, new(big.Int).Xor(a.c, mask(a.sort.w)))
	}
	return newTerm("bvnot", a.sort, a)
}

func bvExtract(hi, lo int, a *Term) *Term {
	if hi == a.sort.w-1 && lo == 0 {
		return a
	}
	if a.isConst() {
		return mkBVBig(hi-lo+1, new(big.Int).Rsh(a.c, uint(lo)))
	}
	// extract of zero_extend / concat simplifications that matter for byte handling
	if a.op == "zero_extend" || a.op == "sign_extend" {
		inner := a.args[0]
		if hi < inner.sort.w {
			return bvExtract(hi, lo, inner)
		}
		if a.op == "zero_extend" && lo >= inner.sort.w {
			return mkBV(hi-lo+1, 0)
		}
	}
	if a.op == "concat" {
		lowW := a.args[1].sort.w
		if hi < lowW {
			return bvExtract(hi, lo, a.args[1])
		}
		if lo >= lowW {
			return bvExtract(hi-lowW, lo-lowW, a.args[0])
		}
	}
	t := newTerm("extract", bvSort(hi-lo+1), a)
	t.p1, t.p2 = hi, lo
	return t
}

func bvZext(to int, a *Term) *Term {
	n := to - a.sort.w
	if n == 0 {
		return a
	}
	if n < 0 {
		return bvExtract(to-1, 0, a)
	}
	if a.isConst() {
		return mkBVBig(to, a.c)
	}
	t := newTerm("zero_extend", bvSort(to), a)
	t.p1 = n
	return t
}

func bvSext(to int, a *Term) *Term {
	n := to - a.sort.w
	if n == 0 {
		return a
	}
	if n < 0 {
		return bvExtract(to-1, 0, a)
	}
	if a.isConst() {
		return mkBVBig(to, a.signedVal())
	}
	t := newTerm("sign_extend", bvSort(to), a)
	t.p1 = n
	return t
}

func bvConcat(hi, lo *Term) *Term {
	if hi.isConst() && lo.isConst() {
		v := new(big.Int).Lsh(hi.c, uint(lo.sort.w))
		v.Or(v, lo.c)
		return mkBVBig(hi.sort.w+lo.sort.w, v)
	}
	return newTerm("concat", bvSort(hi.sort.w+lo.sort.w), hi, lo)
}

// Int-sort arithmetic (mathematical integers)
func intBin(op string, a, b *Term) *Term {
	if a.sort.k != sInt || b.sort.k != sInt {
		panic(engineError{fmt.Sprintf("int %s on %v %v", op, a.sort, b.sort)})
	}
	if a.isConst() && b.isConst() {
		r := new(big.Int)
		switch op {
		case "+":
			return mkIntBig(r.Add(a.c, b.c))
		case "-":
			return mkIntBig(r.Sub(a.c, b.c))
		case "*":
			return mkIntBig(r.Mul(a.c, b.c))
		}
	}
	switch op {
	case "+":
		if a.isConst() && a.c.Sign() == 0 {
			return b
		}
		if b.isConst() && b.c.Sign() == 0 {
			return a
		}
	case "-":
		if b.isConst() && b.c.Sign() == 0 {
			return a
		}
	case "*":
		if !a.isConst() && !b.isConst() {
			panic(engineError{"nonlinear: product of two symbolic integers is refused"})
		}
		if a.isConst() && a.c.Cmp(big.NewInt(1)) == 0 {
			return b
		}
		if b.isConst() && b.c.Cmp(big.NewInt(1)) == 0 {
			return a
		}
		if (a.isConst() && a.c.Sign() == 0) || (b.isConst() && b.c.Sign() == 0) {
			return mkInt(0)
		}
	}
	return newTerm(op, intSort, a, b)
}

func intNeg(a *Term) *Term {
	if a.isConst() {
		return mkIntBig(new(big.Int).Neg(a.c))
	}
	return newTerm("-", intSort, a)
}

func intAbs(a *Term) *Term {
	if a.isConst() {
		return mkIntBig(new(big.Int).Abs(a.c))
	}
	return newTerm("abs", intSort, a)
}

// Go's big.Int Quo truncates toward zero; SMT div is floor for positive divisor (euclidean).
// intQuoTrunc(a, b) with constant non-zero b.
func intQuoTrunc(a, b *Term) *Term {
	if b.isConst() && b.c.Sign() == 0 {
		panic(engineError{"division by constant zero"})
	}
	if a.isConst() && b.isConst() {
		return mkIntBig(new(big.Int).Quo(a.c, b.c))
	}
	if !b.isConst() {
		panic(engineError{"nonlinear: division by symbolic integer is refused"})
	}
	// trunc(a/b) = sign(a)*sign(b) * (|a| div |b|)
	absb := mkIntBig(new(big.Int).Abs(b.c))
	q := newTerm("div", intSort, intAbs(a), absb)
	neg := newTerm("-", intSort, q)
	aNeg := intCmp("<", a, mkInt(0))
	if b.c.Sign() < 0 {
		return mkIte(aNeg, q, neg)
	}
	return mkIte(aNeg, neg, q)
}

func intRemTrunc(a, b *Term) *Term {
	if a.isConst() && b.isConst() && b.c.Sign() != 0 {
		return mkIntBig(new(big.Int).Rem(a.c, b.c))
	}
	if !b.isConst() || b.c.Sign() == 0 {
		panic(engineError{"nonlinear: remainder by symbolic/zero integer is refused"})
	}
	// a - b*trunc(a/b)
	return intBin("-", a, intBin("*", b, intQuoTrunc(a, b)))
}

func intCmp(op string, a, b *Term) *Term {
	if a.sort.k != sInt || b.sort.k != sInt {
		panic(engineError{fmt.Sprintf("int cmp %s on %v %v", op, a.sort, b.sort)})
	}
	if a.isConst() && b.isConst() {
		c := a.c.Cmp(b.c)
		switch op {
		case "<":
			return b2t(c < 0)
		case "<=":
			return b2t(c <= 0)
		case ">":
			return b2t(c > 0)
		case ">=":
			return b2t(c >= 0)
		}
	}
	return newTerm(op, boolSort, a, b)
}

// ---------------------------------------------------------------------------------------------
// Emission

type emitter struct {
	defined map[*Term]string
	undo    []*Term
	out     *strings.Builder
	n       int
}

func newEmitter() *emitter {
	return &emitter{defined: map[*Term]string{}, out: &strings.Builder{}}
}

func constText(t *Term) string {
	switch t.sort.k {
	case sBool:
		if t.c.Sign() != 0 {
			return "true"
		}
		return "false"
	case sBV:
		if t.sort.w%4 == 0 {
			return fmt.Sprintf("#x%0*s", t.sort.w/4, t.c.Text(16))
		}
		return fmt.Sprintf("#b%0*s", t.sort.w, t.c.Text(2))
	default:
		if t.c.Sign() < 0 {
			return "(- " + new(big.Int).Neg(t.c).String() + ")"
		}
		return t.c.String()
	}
}

// ref returns the SMT name/text for t, emitting definitions (into e.out) as needed.
func (e *emitter) ref(t *Term) string {
	if t.op == "const" {
		return constText(t)
	}
	if s, ok := e.defined[t]; ok {
		return s
	}
	if t.op == "var" {
		fmt.Fprintf(e.out, "(declare-const %s %s)\n", t.name, t.sort)
		e.defined[t] = t.name
		e.undo = append(e.undo, t)
		return t.name
	}
	// iterative post-order to avoid deep recursion
	type fr struct {
		t *Term
		i int
	}
	stack := []fr{{t, 0}}
	for len(stack) > 0 {
		top := &stack[len(stack)-1]
		if top.i < len(top.t.args) {
			a := top.t.args[top.i]
			top.i++
			if a.op == "const" {
				continue
			}
			if _, ok := e.defined[a]; ok {
				continue
			}
			if a.op == "var" {
				fmt.Fprintf(e.out, "(declare-const %s %s)\n", a.name, a.sort)
				e.defined[a] = a.name
				e.undo = append(e.undo, a)
				continue
			}
			stack = append(stack, fr{a, 0})
			continue
		}
		cur := top.t
		stack = stack[:len(stack)-1]
		if _, ok := e.defined[cur]; ok {
			continue
		}
		var sb strings.Builder
		switch cur.op {
		case "extract":
			fmt.Fprintf(&sb, "((_ extract %d %d)", cur.p1, cur.p2)
		case "zero_extend", "sign_extend":
			fmt.Fprintf(&sb, "((_ %s %d)", cur.op, cur.p1)
		default:
			sb.WriteString("(" + cur.op)
		}
		for _, a := range cur.args {
			sb.WriteByte(' ')
			if a.op == "const" {
				sb.WriteString(constText(a))
			} else {
				sb.WriteString(e.defined[a])
			}
		}
		sb.WriteByte(')')
		e.n++
		name := fmt.Sprintf("t!%d", e.n)
		fmt.Fprintf(e.out, "(define-fun %s () %s %s)\n", name, cur.sort, sb.String())
		e.defined[cur] = name
		e.undo = append(e.undo, cur)
	}
	return e.defined[t]
}

// ---------------------------------------------------------------------------------------------
// symbolic scalar values carried by the interpreter

// symv is a symbolic value of a Go basic type (bool or fixed-width integer).
type symv struct {
	t *Term
	k types.BasicKind
}

func kindWidth(k types.BasicKind) (w int, signed bool) {
	switch k {
	case types.Int8:
		return 8, true
	case types.Int16:
		return 16, true
	case types.Int32:
		return 32, true
	case types.Int64, types.Int:
		return 64, true
	case types.Uint8:
		return 8, false
	case types.Uint16:
		return 16, false
	case types.Uint32:
		return 32, false
	case types.Uint64, types.Uint, types.Uintptr:
		return 64, false
	}
	panic(engineError{fmt.Sprintf("kindWidth: not an integer kind %v", k)})
}

func valueKind(x value) (types.BasicKind, bool) {
	switch x := x.(type) {
	case symv:
		return x.k, true
	case bool:
		return types.Bool, true
	case int:
		return types.Int, true
	case int8:
		return types.Int8, true
	case int16:
		return types.Int16, true
	case int32:
		return types.Int32, true
	case int64:
		return types.Int64, true
	case uint:
		return types.Uint, true
	case uint8:
		return types.Uint8, true
	case uint16:
		return types.Uint16, true
	case uint32:
		return types.Uint32, true
	case uint64:
		return types.Uint64, true
	case uintptr:
		return types.Uintptr, true
	}
	return 0, false
}

// termOf converts a concrete or symbolic scalar into a term.
func termOf(x value) *Term {
	switch x := x.(type) {
	case symv:
		return x.t
	case bool:
		return b2t(x)
	}
	k, ok := valueKind(x)
	if !ok {
		panic(engineError{fmt.Sprintf("termOf: unsupported %T", x)})
	}
	w, signed := kindWidth(k)
	if signed {
		return mkBVBig(w, big.NewInt(asInt64(x)))
	}
	return mkBV(w, uint64(asInt64(x)))
}

// concreteOf converts a constant term back into a concrete Go value of kind k.
func concreteOf(t *Term, k types.BasicKind) value {
	if k == types.Bool {
		return t.c.Sign() != 0
	}
	_, signed := kindWidth(k)
	var u uint64
	if signed {
		u = uint64(t.signedVal().Int64())
	} else {
		u = t.c.Uint64()
	}
	switch k {
	case types.Int:
		return int(u)
	case types.Int8:
		return int8(u)
	case types.Int16:
		return int16(u)
	case types.Int32:
		return int32(u)
	case types.Int64:
		return int64(u)
	case types.Uint:
		return uint(u)
	case types.Uint8:
		return uint8(u)
	case types.Uint16:
		return uint16(u)
	case types.Uint32:
		return uint32(u)
	case types.Uint64:
		return uint64(u)
	case types.Uintptr:
		return uintptr(u)
	}
	panic(engineError{"concreteOf: bad kind"})
}

// mkVal wraps a term as a value of kind k, concretising constants.
func mkVal(t *Term, k types.BasicKind) value {
	if t.isConst() {
		return concreteOf(t, k)
	}
	return symv{t: t, k: k}
}

func isSym(x value) bool {
	_, ok := x.(symv)
	return ok
}

// engineError is raised (as a Go panic) when the engine cannot faithfully execute something.
// It is never a verdict about the target program.
type engineError struct{ msg string }

func (e engineError) Error() string { return "engine: " + e.msg }
