package interp

// One long-lived SMT solver process per worker, driven over stdin/stdout with push/pop.

import (
	"bufio"
	"fmt"
	"io"
	"os"
	"os/exec"
	"strings"
	"time"
)

type SatResult int

const (
	Unsat SatResult = iota
	Sat
	Unknown
)

func (r SatResult) String() string {
	return [...]string{"unsat", "sat", "unknown"}[r]
}

type Solver struct {
	name    string
	cmd     *exec.Cmd
	in      io.WriteCloser
	out     *bufio.Reader
	em      *emitter
	emStack []int // undo-log marks for push/pop
	log     *os.File
	Queries int
	Time    time.Duration
	Errors  int
	timeout int // ms
	dead    bool
}

// solverArgv returns the command line of a back end.
func solverArgv(name string, timeoutMs int) []string {
	switch name {
	case "z3":
		return []string{"/usr/bin/z3", "-in", fmt.Sprintf("-t:%d", timeoutMs)}
	case "z3-new":
		return []string{"z3-new", "-in", fmt.Sprintf("-t:%d", timeoutMs)}
	case "cvc5":
		return []string{"cvc5", "--incremental", "--lang=smt2", fmt.Sprintf("--tlimit-per=%d", timeoutMs), "--produce-models"}
	}
	panic("unknown solver " + name)
}

func NewSolver(name string, timeoutMs int, logPath string) (*Solver, error) {
	argv := solverArgv(name, timeoutMs)
	cmd := exec.Command(argv[0], argv[1:]...)
	in, err := cmd.StdinPipe()
	if err != nil {
		return nil, err
	}
	outp, err := cmd.StdoutPipe()
	if err != nil {
		return nil, err
	}
	cmd.Stderr = cmd.Stdout
	if err := cmd.Start(); err != nil {
		return nil, err
	}
	s := &Solver{name: name, cmd: cmd, in: in, out: bufio.NewReaderSize(outp, 1<<20), em: newEmitter(), timeout: timeoutMs}
	if logPath != "" {
		s.log, _ = os.Create(logPath)
	}
	s.send("(set-option :produce-models true)\n(set-logic ALL)\n")
	return s, nil
}

func (s *Solver) send(text string) {
	if s.log != nil {
		s.log.WriteString(text)
	}
	if _, err := io.WriteString(s.in, text); err != nil {
		s.dead = true
	}
}

func (s *Solver) Close() {
	if s.cmd != nil {
		s.in.Close()
		s.cmd.Process.Kill()
		s.cmd.Wait()
	}
	if s.log != nil {
		s.log.Close()
	}
}

func (s *Solver) flushDefs() {
	if s.em.out.Len() > 0 {
		s.send(s.em.out.String())
		s.em.out.Reset()
	}
}

func (s *Solver) Push() {
	s.emStack = append(s.emStack, len(s.em.undo))
	s.send("(push 1)\n")
}

func (s *Solver) Pop() {
	n := len(s.emStack) - 1
	mark := s.emStack[n]
	s.emStack = s.emStack[:n]
	for _, t := range s.em.undo[mark:] {
		delete(s.em.defined, t)
	}
	s.em.undo = s.em.undo[:mark]
	s.em.out.Reset()
	// e.n stays monotone so names are never reused within a process
	s.send("(pop 1)\n")
}

func (s *Solver) Assert(t *Term) {
	if t.isTrue() {
		return
	}
	r := s.em.ref(t)
	s.flushDefs()
	s.send("(assert " + r + ")\n")
}

// readLine reads one response line.
func (s *Solver) readLine() (string, error) {
	line, err := s.out.ReadString('\n')
	return strings.TrimSpace(line), err
}

// Check runs check-sat under the current assertions.
func (s *Solver) Check() SatResult {
	if s.dead {
		s.Errors++
		return Unknown
	}
	start := time.Now()
	s.send("(check-sat)\n")
	s.Queries++
	defer func() { s.Time += time.Since(start) }()
	for {
		line, err := s.readLine()
		if err != nil {
			s.dead = true
			s.Errors++
			return Unknown
		}
		switch {
		case line == "sat":
			return Sat
		case line == "unsat":
			return Unsat
		case line == "unknown" || line == "timeout":
			return Unknown
		case strings.HasPrefix(line, "(error"):
			s.Errors++
			if s.log != nil {
				s.log.WriteString("; RESPONSE " + line + "\n")
			}
			// keep reading: the verdict line still follows; but it is not trusted
			res := Unknown
			for {
				l2, err := s.readLine()
				if err != nil {
					s.dead = true
					return Unknown
				}
				if l2 == "sat" || l2 == "unsat" || l2 == "unknown" || l2 == "timeout" {
					break
				}
			}
			return res
		case line == "":
			continue
		default:
			// stray output
			continue
		}
	}
}

// CheckWith checks satisfiability of the current assertions plus extra, without keeping extra.
func (s *Solver) CheckWith(extra *Term) SatResult {
	if extra.isFalse() {
		return Unsat
	}
	s.Push()
	s.Assert(extra)
	r := s.Check()
	s.Pop()
	return r
}

// Model returns the values of the given variables after a Sat answer (must be called before pop).
func (s *Solver) Model(vars []*Term) map[string]string {
	res := map[string]string{}
	for _, v := range vars {
		if _, ok := s.em.defined[v]; !ok {
			continue // never sent to the solver: unconstrained
		}
		s.send("(get-value (" + v.name + "))\n")
		// response: ((name value)) possibly multi-line
		depth := 0
		var sb strings.Builder
		started := false
		for {
			line, err := s.readLine()
			if err != nil {
				s.dead = true
				return res
			}
			if strings.HasPrefix(line, "(error") {
				s.Errors++
				break
			}
			sb.WriteString(line)
			sb.WriteByte(' ')
			for _, c := range line {
				if c == '(' {
					depth++
					started = true
				} else if c == ')' {
					depth--
				}
			}
			if started && depth == 0 {
				break
			}
		}
		txt := strings.TrimSpace(sb.String())
		// strip "((name " and "))"
		txt = strings.TrimPrefix(txt, "((")
		txt = strings.TrimSuffix(txt, "))")
		txt = strings.TrimSpace(strings.TrimPrefix(txt, v.name))
		res[strings.Trim(v.name, "|")] = txt
	}
	return res
}
