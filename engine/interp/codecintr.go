package interp

// Engine side of models.Codec: opaque marshalling by deep copy.

import (
	"fmt"
	"go/types"
)

// blob is the single element of an "opaque bytes" slice produced by MarshalOpaque.
type blob struct {
	t types.Type // dynamic type of the marshalled message (pointer to struct)
	v value      // deep copy of the pointee
}

func deepCopy(v value, seen map[*value]*value) value {
	switch x := v.(type) {
	case structure:
		c := make(structure, len(x))
		for i := range x {
			c[i] = deepCopy(x[i], seen)
		}
		return c
	case array:
		c := make(array, len(x))
		for i := range x {
			c[i] = deepCopy(x[i], seen)
		}
		return c
	case []value:
		if x == nil {
			return x
		}
		c := make([]value, len(x))
		for i := range x {
			c[i] = deepCopy(x[i], seen)
		}
		return c
	case *value:
		if x == nil {
			return x
		}
		if p, ok := seen[x]; ok {
			return p
		}
		np := new(value)
		seen[x] = np
		*np = deepCopy(*x, seen)
		return np
	case iface:
		return iface{t: x.t, v: deepCopy(x.v, seen)}
	case map[value]value:
		if x == nil {
			return x
		}
		c := make(map[value]value, len(x))
		for k, e := range x {
			c[k] = deepCopy(e, seen)
		}
		return c
	case sstr:
		return x
	case tuple:
		c := make(tuple, len(x))
		for i := range x {
			c[i] = deepCopy(x[i], seen)
		}
		return c
	case *hashmap:
		panic(engineError{"deepCopy of struct-keyed map"})
	}
	return v // scalars, strings, symv, bigv (immutable), functions
}

func init() {
	reg := func(name string, f externalFn) { externals[rtPath+"."+name] = f }
	reg("MarshalOpaque", func(fr *frame, args []value) value {
		m := args[0].(iface)
		if m.t == nil {
			panic(rtErr(fr.i, "Marshal(nil)"))
		}
		p, ok := m.v.(*value)
		if !ok {
			panic(engineError{fmt.Sprintf("MarshalOpaque of non-pointer %s", m.t)})
		}
		if p == nil {
			panic(rtErr(fr.i, "invalid memory address or nil pointer dereference (Marshal of nil message)"))
		}
		return []value{blob{t: m.t, v: deepCopy(*p, map[*value]*value{})}}
	})
	reg("UnmarshalOpaque", func(fr *frame, args []value) value {
		bz := args[0].([]value)
		dst := args[1].(iface)
		if len(bz) != 1 {
			if len(bz) == 0 {
				// real codecs decode empty bytes into the zero message
				p := dst.v.(*value)
				*p = zero(mustDeref(dst.t))
				return true
			}
			panic(engineError{"UnmarshalOpaque of raw bytes (wire format not modelled)"})
		}
		b, ok := bz[0].(blob)
		if !ok {
			panic(engineError{"UnmarshalOpaque of raw bytes (wire format not modelled)"})
		}
		if !types.Identical(b.t, dst.t) {
			return false
		}
		p := dst.v.(*value)
		*p = deepCopy(b.v, map[*value]*value{})
		return true
	})
	reg("UnpackAnyOpaque", func(fr *frame, args []value) value {
		anyI := args[0].(iface)
		ap, ok := anyI.v.(*value)
		if !ok || ap == nil {
			return false
		}
		st := (*ap).(structure)
		// codectypes.Any{TypeUrl, Value, XXX..., cachedValue}: find the cachedValue field by name
		anyT := mustDeref(anyI.t).Underlying().(*types.Struct)
		idx := -1
		for i := 0; i < anyT.NumFields(); i++ {
			if anyT.Field(i).Name() == "cachedValue" {
				idx = i
			}
		}
		if idx < 0 {
			panic(engineError{"Any has no cachedValue field"})
		}
		cv, _ := st[idx].(iface)
		if cv.t == nil {
			return false
		}
		dst := args[1].(iface)
		dp := dst.v.(*value)
		want := mustDeref(dst.t)
		if it, ok := want.Underlying().(*types.Interface); ok {
			if !types.Implements(cv.t, it) {
				return false
			}
			*dp = cv
			return true
		}
		return false
	})
	// NewAnyWithValue: keep the value cached, bytes opaque
	externals["github.com/cosmos/cosmos-sdk/codec/types.NewAnyWithValue"] = func(fr *frame, args []value) value {
		m := args[0].(iface)
		if m.t == nil {
			return tuple{(*value)(nil), fr.i.newError("Expecting non nil value to create a new Any", iface{})}
		}
		name, ok := fr.i.sess.protoNameOf(m.t)
		if !ok {
			panic(engineError{fmt.Sprintf("NewAnyWithValue: no proto registration for %s", m.t)})
		}
		anyT := fr.i.prog.ImportedPackage("github.com/cosmos/cosmos-sdk/codec/types").Type("Any").Type()
		cell := zero(anyT).(structure)
		st := anyT.Underlying().(*types.Struct)
		for i := 0; i < st.NumFields(); i++ {
			switch st.Field(i).Name() {
			case "TypeUrl":
				cell[i] = "/" + name
			case "Value":
				p := m.v.(*value)
				cell[i] = []value{blob{t: m.t, v: deepCopy(*p, map[*value]*value{})}}
			case "cachedValue":
				cell[i] = m
			}
		}
		var v value = cell
		return tuple{&v, iface{}}
	}
	// gas metering elided: Context.KVStore returns the multistore's store directly
	externals["(github.com/cosmos/cosmos-sdk/types.Context).KVStore"] = func(fr *frame, args []value) value {
		ctx := args[0].(structure)
		ctxT := fr.i.prog.ImportedPackage("github.com/cosmos/cosmos-sdk/types").Type("Context").Type().Underlying().(*types.Struct)
		for i := 0; i < ctxT.NumFields(); i++ {
			if ctxT.Field(i).Name() == "ms" {
				ms := ctx[i].(iface)
				if ms.t == nil {
					panic(rtErr(fr.i, "invalid memory address or nil pointer dereference (Context without multistore)"))
				}
				fn := fr.i.prog.LookupMethod(ms.t, nil, "GetKVStore")
				if fn == nil {
					panic(engineError{fmt.Sprintf("multistore %s has no GetKVStore", ms.t)})
				}
				return call(fr.i, fr, 0, fn, []value{ms.v, args[1]})
			}
		}
		panic(engineError{"Context.ms not found"})
	}
	externals["(github.com/cosmos/cosmos-sdk/types.Context).TransientStore"] = externals["(github.com/cosmos/cosmos-sdk/types.Context).KVStore"]
}

func init() {
	externals[rtPath+".UnmarshalInterfaceOpaque"] = func(fr *frame, args []value) value {
		bz := args[0].([]value)
		dst := args[1].(iface)
		if len(bz) != 1 {
			return false
		}
		b, ok := bz[0].(blob)
		if !ok {
			return false
		}
		dp := dst.v.(*value)
		want := mustDeref(dst.t)
		it, ok := want.Underlying().(*types.Interface)
		if !ok || !types.Implements(b.t, it) {
			return false
		}
		np := new(value)
		*np = deepCopy(b.v, map[*value]*value{})
		*dp = iface{t: b.t, v: np}
		return true
	}
}

func init() {
	// the protobuf interface registry is reflection all the way down; packages create one in their
	// variable initialisers (module codecs). It is an opaque nil here: any use is a nil dereference
	// inside the engine, i.e. an explicit failure, never a wrong answer.
	externals["github.com/cosmos/cosmos-sdk/codec/types.NewInterfaceRegistry"] = func(fr *frame, args []value) value {
		return iface{}
	}
}

func init() {
	// fx gov SubmitProposal marshals the stored proposal only to charge gas by its length; the
	// wire size is not modelled: a fixed-length opaque byte string.
	externals["(*github.com/cosmos/cosmos-sdk/x/gov/types/v1.Proposal).Marshal"] = func(fr *frame, args []value) value {
		out := make([]value, 128)
		for j := range out {
			out[j] = uint8(0)
		}
		return tuple{out, iface{}}
	}
}
