package interp

// Intrinsics for cosmos-sdk / protobuf helpers.

import (
	"crypto/sha256"
	"fmt"
	"go/types"
	"os"
	"path/filepath"
	"regexp"
	"strings"
	"sync"
)

var (
	protoNameMu    sync.Mutex
	protoNameCache = map[string]map[string]string{} // pkg path -> Go type name -> proto name
	registerTypeRe = regexp.MustCompile(`proto\.RegisterType\(\(\*(\w+)\)\(nil\), "([^"]+)"\)`)
)

// protoNameOf finds the registered protobuf full name of the message type t by scanning the
// generated .pb.go sources of its package for proto.RegisterType lines.
func (s *Session) protoNameOf(t types.Type) (string, bool) {
	if p, ok := t.(*types.Pointer); ok {
		t = p.Elem()
	}
	n, ok := t.(*types.Named)
	if !ok || n.Obj().Pkg() == nil {
		return "", false
	}
	pkg := n.Obj().Pkg().Path()
	protoNameMu.Lock()
	defer protoNameMu.Unlock()
	m, ok := protoNameCache[pkg]
	if !ok {
		m = map[string]string{}
		dir := s.PkgDirs[pkg]
		if dir != "" {
			files, _ := filepath.Glob(filepath.Join(dir, "*.pb.go"))
			for _, f := range files {
				bz, err := os.ReadFile(f)
				if err != nil {
					continue
				}
				for _, mm := range registerTypeRe.FindAllStringSubmatch(string(bz), -1) {
					m[mm[1]] = mm[2]
				}
			}
		}
		protoNameCache[pkg] = m
	}
	name, ok := m[n.Obj().Name()]
	return name, ok
}

func init() {
	E := externals
	msgTypeURL := func(fr *frame, args []value) value {
		m := args[0].(iface)
		if m.t == nil {
			panic(rtErr(fr.i, "MsgTypeURL(nil)"))
		}
		// gogoproto: a type with an XXX_MessageName method names itself (e.g. *types.Any)
		if sel := fr.i.prog.MethodSets.MethodSet(m.t).Lookup(nil, "XXX_MessageName"); sel != nil {
			if fn := fr.i.prog.MethodValue(sel); fn != nil && fn.Blocks != nil {
				if nm, isStr := call(fr.i, fr, 0, fn, []value{m.v}).(string); isStr {
					return "/" + nm
				}
			}
		}
		name, ok := fr.i.sess.protoNameOf(m.t)
		if !ok {
			panic(engineError{fmt.Sprintf("no proto registration found for %s", m.t)})
		}
		return "/" + name
	}
	E["github.com/cosmos/cosmos-sdk/codec/types.MsgTypeURL"] = msgTypeURL
	E["github.com/cosmos/gogoproto/proto.MessageName"] = func(fr *frame, args []value) value {
		r := msgTypeURL(fr, args).(string)
		return strings.TrimPrefix(r, "/")
	}
}

func init() {
	E := externals
	E["github.com/cosmos/cosmos-sdk/internal/conv.UnsafeBytesToStr"] = func(fr *frame, args []value) value {
		return mkStr(args[0].([]value))
	}
	E["github.com/cosmos/cosmos-sdk/internal/conv.UnsafeStrToBytes"] = func(fr *frame, args []value) value {
		return strElems(args[0])
	}
	E["github.com/cosmos/cosmos-sdk/types.IsAddrCacheEnabled"] = func(fr *frame, args []value) value { return false }
}

func init() {
	E := externals
	// stack traces are irrelevant: pretend every error already carries one
	E["cosmossdk.io/errors.stackTrace"] = func(fr *frame, args []value) value { return []value{} }
	// message texts are kept opaque: Wrapf(err, format, args...) == Wrap(err, format)
	E["cosmossdk.io/errors.Wrapf"] = func(fr *frame, args []value) value {
		pkg := fr.i.prog.ImportedPackage("cosmossdk.io/errors")
		return call(fr.i, fr, 0, pkg.Func("Wrap"), []value{args[0], args[1]})
	}
}

func init() {
	E := externals
	// protobuf text rendering: opaque text (contains spaces and quotes; never a valid address)
	compact := func(fr *frame, args []value) value {
		m := args[0].(iface)
		if m.t == nil {
			return "<nil>"
		}
		name, _ := fr.i.sess.protoNameOf(m.t)
		return "<proto text of " + name + " >"
	}
	E["github.com/cosmos/gogoproto/proto.CompactTextString"] = compact
	E["github.com/cosmos/gogoproto/proto.MarshalTextString"] = compact
	E["github.com/cosmos/gogoproto/proto.EnumName"] = func(fr *frame, args []value) value {
		m, _ := args[0].(map[value]value)
		k := args[1]
		if s, ok := m[k]; ok {
			return s
		}
		return "UNKNOWN_ENUM"
	}
}

func init() {
	E := externals
	isContract := func(fr *frame, args []value) value {
		var st structure
		switch a := args[0].(type) {
		case *value:
			if a == nil {
				panic(rtErr(fr.i, "invalid memory address or nil pointer dereference"))
			}
			st = (*a).(structure)
		case structure:
			st = a
		}
		ch, _ := st[1].([]value)
		if len(ch) == 0 {
			return false
		}
		cb, ok := concBytes(ch)
		if !ok {
			panic(engineError{"symbolic code hash"})
		}
		return string(cb) != string(keccak256(nil))
	}
	E["(*github.com/evmos/ethermint/x/evm/statedb.Account).IsContract"] = isContract
	E["(github.com/evmos/ethermint/x/evm/statedb.Account).IsContract"] = isContract
}

func init() {
	// fx-core's own telemetry helper (float conversions of amounts): observability only
	externals["github.com/functionx/fx-core/v8/telemetry.SetGaugeLabelsWithDenom"] = func(fr *frame, args []value) value { return nil }
}

func init() {
	externals["(*github.com/evmos/ethermint/x/evm/types.MsgEthereumTxResponse).Failed"] = func(fr *frame, args []value) value {
		p := args[0].(*value)
		if p == nil {
			panic(rtErr(fr.i, "invalid memory address or nil pointer dereference"))
		}
		t := fr.i.prog.ImportedPackage("github.com/evmos/ethermint/x/evm/types").Type("MsgEthereumTxResponse").Type()
		v := *fr.i.structField(t, (*p).(structure), "VmError")
		return strLen(v) > 0
	}
}

func init() {
	// authtypes.NewModuleAddress(name) = first 20 bytes of sha256(name)
	externals["github.com/cosmos/cosmos-sdk/x/auth/types.NewModuleAddress"] = func(fr *frame, args []value) value {
		name, ok := args[0].(string)
		if !ok {
			panic(engineError{"NewModuleAddress of symbolic name"})
		}
		h := sha256.Sum256([]byte(name))
		return bytesToElems(h[:20])
	}
}

func init() {
	// ibc-go denomination traces, for denominations without a path (no '/'): the trace is the base
	// denomination itself. Denominations with a path are outside the modelled fragment.
	externals["github.com/cosmos/ibc-go/v8/modules/apps/transfer/types.ParseDenomTrace"] = func(fr *frame, args []value) value {
		raw, ok := force(args[0]).(string)
		if !ok || strings.Contains(raw, "/") {
			panic(engineError{"ibc ParseDenomTrace: symbolic or multi-hop denomination not modelled"})
		}
		return structure{"", raw}
	}
	externals["(github.com/cosmos/ibc-go/v8/modules/apps/transfer/types.DenomTrace).IBCDenom"] = func(fr *frame, args []value) value {
		st := args[0].(structure)
		if p, ok := st[0].(string); !ok || p != "" {
			panic(engineError{"ibc DenomTrace.IBCDenom: denomination with a path not modelled"})
		}
		return st[1]
	}
}
