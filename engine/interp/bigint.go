package interp

// math/big.Int as an engine-level abstract datatype: Int-sorted terms.
// Representation: the interpreter's structure for big.Int {neg bool; abs nat} keeps a bigv in
// the abs slot (nil slice = 0).

import (
	"fmt"
	"go/types"
	"math/big"
)

type bigv struct{ t *Term }

func newBigPtr(t *Term) *value {
	var cell value = structure{false, bigv{t}}
	return &cell
}

func bigCell(p value) structure {
	pv, ok := p.(*value)
	if !ok {
		panic(engineError{fmt.Sprintf("big.Int receiver is %T", p)})
	}
	if pv == nil {
		panic(targetPanic{iface{rtErrType, "runtime error: invalid memory address or nil pointer dereference (nil *big.Int)"}})
	}
	s, ok := (*pv).(structure)
	if !ok || len(s) != 2 {
		panic(engineError{fmt.Sprintf("big.Int cell is %T", *pv)})
	}
	return s
}

func getBig(p value) *Term {
	s := bigCell(p)
	switch a := s[1].(type) {
	case bigv:
		return a.t
	case []value:
		if len(a) == 0 {
			return mkInt(0)
		}
	}
	panic(engineError{"big.Int with raw nat words"})
}

func setBig(p value, t *Term) value {
	s := bigCell(p)
	s[0] = false
	s[1] = bigv{t}
	return p
}

func concBig(t *Term) (*big.Int, bool) {
	if t.isConst() {
		return t.c, true
	}
	return nil, false
}

func mustConcBig(t *Term, what string) *big.Int {
	c, ok := concBig(t)
	if !ok {
		panic(engineError{what + " on symbolic big integer"})
	}
	return c
}

// bigFromMachine converts a machine integer value (concrete) to an Int term.
func bigFromMachine(v value, what string) *Term {
	if _, ok := v.(symv); ok {
		panic(engineError{what + ": symbolic machine integer converted to big.Int (Int/BV bridging is refused)"})
	}
	k, _ := valueKind(v)
	_, signed := kindWidth(k)
	if signed {
		return mkInt(asInt64(v))
	}
	return mkIntBig(new(big.Int).SetUint64(uint64(asInt64(v))))
}

var two64 = new(big.Int).Lsh(big.NewInt(1), 64)
var two63 = new(big.Int).Lsh(big.NewInt(1), 63)

func init() {
	B := func(name string, f externalFn) { externals["(*math/big.Int)."+name] = f }
	externals["math/big.NewInt"] = func(fr *frame, args []value) value {
		return newBigPtr(bigFromMachine(args[0], "big.NewInt"))
	}
	bin := func(f func(a, b *Term) *Term) externalFn {
		return func(fr *frame, args []value) value {
			return setBig(args[0], f(getBig(args[1]), getBig(args[2])))
		}
	}
	B("Add", bin(func(a, b *Term) *Term { return intBin("+", a, b) }))
	B("Sub", bin(func(a, b *Term) *Term { return intBin("-", a, b) }))
	B("Mul", bin(func(a, b *Term) *Term { return intBin("*", a, b) }))
	divGuard := func(fr *frame, b *Term) {
		if b.isConst() {
			if b.c.Sign() == 0 {
				panic(targetPanic{iface{rtErrType, "division by zero"}})
			}
			return
		}
		panic(engineError{"big.Int division by symbolic divisor"})
	}
	B("Quo", func(fr *frame, args []value) value {
		a, b := getBig(args[1]), getBig(args[2])
		divGuard(fr, b)
		return setBig(args[0], intQuoTrunc(a, b))
	})
	B("Rem", func(fr *frame, args []value) value {
		a, b := getBig(args[1]), getBig(args[2])
		divGuard(fr, b)
		return setBig(args[0], intRemTrunc(a, b))
	})
	B("QuoRem", func(fr *frame, args []value) value {
		a, b := getBig(args[1]), getBig(args[2])
		divGuard(fr, b)
		q := intQuoTrunc(a, b)
		r := intRemTrunc(a, b)
		setBig(args[3], r)
		setBig(args[0], q)
		return tuple{args[0], args[3]}
	})
	// Euclidean division
	B("Div", func(fr *frame, args []value) value {
		a, b := getBig(args[1]), getBig(args[2])
		divGuard(fr, b)
		if a.isConst() {
			return setBig(args[0], mkIntBig(new(big.Int).Div(a.c, b.c)))
		}
		return setBig(args[0], newTerm("div", intSort, a, b))
	})
	B("Mod", func(fr *frame, args []value) value {
		a, b := getBig(args[1]), getBig(args[2])
		divGuard(fr, b)
		if a.isConst() {
			return setBig(args[0], mkIntBig(new(big.Int).Mod(a.c, b.c)))
		}
		return setBig(args[0], newTerm("mod", intSort, a, b))
	})
	B("Neg", func(fr *frame, args []value) value { return setBig(args[0], intNeg(getBig(args[1]))) })
	B("Abs", func(fr *frame, args []value) value { return setBig(args[0], intAbs(getBig(args[1]))) })
	B("Set", func(fr *frame, args []value) value { return setBig(args[0], getBig(args[1])) })
	B("SetInt64", func(fr *frame, args []value) value {
		return setBig(args[0], bigFromMachine(args[1], "SetInt64"))
	})
	B("SetUint64", func(fr *frame, args []value) value {
		return setBig(args[0], bigFromMachine(args[1], "SetUint64"))
	})
	B("Sign", func(fr *frame, args []value) value {
		a := getBig(args[0])
		if a.isConst() {
			return a.c.Sign()
		}
		r := mkIte(intCmp("<", a, mkInt(0)), mkBVBig(64, big.NewInt(-1)), mkIte(mkEq(a, mkInt(0)), mkBV(64, 0), mkBV(64, 1)))
		return mkVal(r, types.Int)
	})
	cmp3 := func(fr *frame, a, b *Term) value {
		if a.isConst() && b.isConst() {
			return a.c.Cmp(b.c)
		}
		// symbolic int result encoded as ite over {-1,0,1} so that callers' comparisons stay symbolic
		r := mkIte(intCmp("<", a, b), mkBVBig(64, big.NewInt(-1)), mkIte(mkEq(a, b), mkBV(64, 0), mkBV(64, 1)))
		return mkVal(r, types.Int)
	}
	B("Cmp", func(fr *frame, args []value) value { return cmp3(fr, getBig(args[0]), getBig(args[1])) })
	B("CmpAbs", func(fr *frame, args []value) value {
		return cmp3(fr, intAbs(getBig(args[0])), intAbs(getBig(args[1])))
	})
	B("BitLen", func(fr *frame, args []value) value {
		a := getBig(args[0])
		if a.isConst() {
			return a.c.BitLen()
		}
		// Exact only for comparisons against the thresholds used by cosmossdk.io/math and callers.
		abs := intAbs(a)
		pow := func(n uint) *Term { return mkIntBig(new(big.Int).Lsh(big.NewInt(1), n)) }
		fr.px().w.ex.noteAssumption("big.Int.BitLen of a symbolic value is abstracted: exact only at the thresholds {0,63..65,127..129,254..257,314..316}")
		r := mkIte(mkEq(abs, mkInt(0)), mkBV(64, 0), mkBV(64, 1))
		for _, n := range []uint{63, 64, 65, 127, 128, 129, 254, 255, 256, 257, 314, 315, 316} {
			// BitLen >= n  <=>  abs >= 2^(n-1)
			r = mkIte(intCmp(">=", abs, pow(n-1)), mkBV(64, uint64(n)), r)
		}
		return mkVal(r, types.Int)
	})
	externals["cosmossdk.io/math.bigIntOverflows"] = func(fr *frame, args []value) value {
		a := getBig(args[0])
		return mkVal(intCmp(">=", intAbs(a), mkIntBig(new(big.Int).Lsh(big.NewInt(1), 256))), types.Bool)
	}
	B("Bits", func(fr *frame, args []value) value {
		panic(engineError{"big.Int.Bits (raw words) not modelled"})
	})
	B("IsInt64", func(fr *frame, args []value) value {
		a := getBig(args[0])
		return mkVal(mkAnd(intCmp(">=", a, mkIntBig(new(big.Int).Neg(two63))), intCmp("<", a, mkIntBig(two63))), types.Bool)
	})
	B("IsUint64", func(fr *frame, args []value) value {
		a := getBig(args[0])
		return mkVal(mkAnd(intCmp(">=", a, mkInt(0)), intCmp("<", a, mkIntBig(two64))), types.Bool)
	})
	B("Int64", func(fr *frame, args []value) value {
		a := mustConcBig(getBig(args[0]), "Int64()")
		return a.Int64()
	})
	B("Uint64", func(fr *frame, args []value) value {
		a := mustConcBig(getBig(args[0]), "Uint64()")
		return a.Uint64()
	})
	B("String", func(fr *frame, args []value) value {
		if pv, ok := args[0].(*value); ok && pv == nil {
			return "<nil>"
		}
		a := getBig(args[0])
		if a.isConst() {
			return a.c.String()
		}
		return &rope{parts: []value{lazyDec{fr: fr, big: a}}}
	})
	B("Text", func(fr *frame, args []value) value {
		a := mustConcBig(getBig(args[0]), "Text()")
		return a.Text(int(asInt64(args[1])))
	})
	B("Append", func(fr *frame, args []value) value {
		a := mustConcBig(getBig(args[0]), "Append()")
		s := a.Text(int(asInt64(args[2])))
		return append(args[1].([]value), strElems(s)...)
	})
	B("SetString", func(fr *frame, args []value) value {
		if r, isRope := args[1].(*rope); isRope && r.done == nil && len(r.parts) == 1 {
			// parsing back the (not yet rendered) decimal text of a big integer: the identity
			if l, isDec := r.parts[0].(lazyDec); isDec && l.big != nil {
				if b := asInt64(args[2]); b == 10 || b == 0 {
					setBig(args[0], l.big)
					return tuple{args[0], true}
				}
			}
		}
		args[1] = force(args[1])
		s, ok := args[1].(string)
		if !ok {
			panic(engineError{"big.Int.SetString on symbolic string"})
		}
		r, ok2 := new(big.Int).SetString(s, int(asInt64(args[2])))
		if !ok2 {
			return tuple{(*value)(nil), false}
		}
		setBig(args[0], mkIntBig(r))
		return tuple{args[0], true}
	})
	B("SetBytes", func(fr *frame, args []value) value {
		bs := args[1].([]value)
		buf := make([]byte, len(bs))
		for j, e := range bs {
			c, ok := e.(uint8)
			if !ok {
				panic(engineError{"big.Int.SetBytes on symbolic bytes"})
			}
			buf[j] = c
		}
		return setBig(args[0], mkIntBig(new(big.Int).SetBytes(buf)))
	})
	B("Bytes", func(fr *frame, args []value) value {
		a := mustConcBig(getBig(args[0]), "Bytes()")
		var out []value
		for _, c := range a.Bytes() {
			out = append(out, c)
		}
		if out == nil {
			out = []value{}
		}
		return out
	})
	B("FillBytes", func(fr *frame, args []value) value {
		t := getBig(args[0])
		buf := args[1].([]value)
		if a, ok := concBig(t); ok {
			tmp := make([]byte, len(buf))
			if (a.BitLen()+7)/8 > len(buf) {
				panic(targetPanic{iface{rtErrType, "math/big: buffer too small to fit value"}})
			}
			a.FillBytes(tmp)
			for j := range buf {
				buf[j] = tmp[j]
			}
			return buf
		}
		// symbolic: only values the path condition bounds below 2^8 (one symbolic byte via a table)
		px := fr.px()
		bits := 0
		for _, k := range []int{4, 8} {
			out := mkOr(intCmp("<", t, mkInt(0)), intCmp(">=", t, mkInt(int64(1)<<uint(k))))
			if px.solver.CheckWith(out) == Unsat {
				bits = k
				break
			}
		}
		if bits == 0 || len(buf) == 0 {
			panic(engineError{"big.Int.FillBytes on a symbolic value not bounded below 256 by the path condition"})
		}
		px.w.ex.noteAssumption("big.Int.FillBytes of a symbolic value is encoded through a value table (value proven < 256 on the path)")
		n := 1 << uint(bits)
		last := mkBV(8, uint64(n-1))
		for v := n - 2; v >= 0; v-- {
			last = mkIte(mkEq(t, mkInt(int64(v))), mkBV(8, uint64(v)), last)
		}
		for j := range buf {
			buf[j] = uint8(0)
		}
		buf[len(buf)-1] = mkVal(last, types.Uint8)
		return buf
	})
	B("Exp", func(fr *frame, args []value) value {
		x := mustConcBig(getBig(args[1]), "Exp")
		y := mustConcBig(getBig(args[2]), "Exp")
		var m *big.Int
		if pv, ok := args[3].(*value); ok && pv != nil {
			m = mustConcBig(getBig(args[3]), "Exp")
		}
		return setBig(args[0], mkIntBig(new(big.Int).Exp(x, y, m)))
	})
	B("Lsh", func(fr *frame, args []value) value {
		n := uint(asInt64(args[2]))
		return setBig(args[0], intBin("*", getBig(args[1]), mkIntBig(new(big.Int).Lsh(big.NewInt(1), n))))
	})
	B("Rsh", func(fr *frame, args []value) value {
		n := uint(asInt64(args[2]))
		a := getBig(args[1])
		if a.isConst() {
			return setBig(args[0], mkIntBig(new(big.Int).Rsh(a.c, n)))
		}
		// floor division by 2^n (Rsh on negative numbers rounds toward -inf, as SMT div with positive divisor)
		return setBig(args[0], newTerm("div", intSort, a, mkIntBig(new(big.Int).Lsh(big.NewInt(1), n))))
	})
	B("Sqrt", func(fr *frame, args []value) value {
		a := mustConcBig(getBig(args[1]), "Sqrt")
		return setBig(args[0], mkIntBig(new(big.Int).Sqrt(a)))
	})
	B("And", func(fr *frame, args []value) value {
		a := mustConcBig(getBig(args[1]), "And")
		b := mustConcBig(getBig(args[2]), "And")
		return setBig(args[0], mkIntBig(new(big.Int).And(a, b)))
	})
	B("Or", func(fr *frame, args []value) value {
		a := mustConcBig(getBig(args[1]), "Or")
		b := mustConcBig(getBig(args[2]), "Or")
		return setBig(args[0], mkIntBig(new(big.Int).Or(a, b)))
	})
	B("Bit", func(fr *frame, args []value) value {
		a := mustConcBig(getBig(args[0]), "Bit")
		return a.Bit(int(asInt64(args[1])))
	})
	B("MarshalText", func(fr *frame, args []value) value {
		a := mustConcBig(getBig(args[0]), "MarshalText")
		return tuple{[]value(strElems(a.String())), iface{}}
	})
	B("UnmarshalText", func(fr *frame, args []value) value {
		bs := args[1].([]value)
		s, ok := mkStr(bs).(string)
		if !ok {
			panic(engineError{"big.Int.UnmarshalText on symbolic bytes"})
		}
		r, ok2 := new(big.Int).SetString(s, 0)
		if !ok2 {
			return iface{rtErrType, "math/big: cannot unmarshal " + s}
		}
		setBig(args[0], mkIntBig(r))
		return iface{}
	})
}

func (ex *explorer) noteAssumption(s string) {
	ex.res.mu.Lock()
	ex.res.Assumptions[s] = true
	ex.res.mu.Unlock()
}

// decimalString renders an Int term in decimal. Symbolic values fork on sign and digit count
// (at most maxSymDigits digits) and introduce BV8 digit characters tied to the value.
const maxSymDigits = 6

func decimalString(fr *frame, a *Term) value {
	if a.isConst() {
		return a.c.String()
	}
	px := fr.px()
	if r, ok := px.decimals[a]; ok {
		return r
	}
	var conds []*Term
	ten := big.NewInt(10)
	lo := big.NewInt(0)
	hi := big.NewInt(10)
	for d := 1; d <= maxSymDigits; d++ {
		conds = append(conds, mkAnd(intCmp(">=", a, mkIntBig(lo)), intCmp("<", a, mkIntBig(hi))))
		lo = new(big.Int).Set(hi)
		hi = new(big.Int).Mul(hi, ten)
	}
	conds = append(conds, intCmp("<", a, mkInt(0)))
	conds = append(conds, intCmp(">=", a, mkIntBig(lo)))
	c := px.decideX(conds, true)
	if c == maxSymDigits {
		panic(pathLimit{"decimal rendering of a negative symbolic big integer"})
	}
	if c == maxSymDigits+1 {
		panic(pathLimit{fmt.Sprintf("decimal rendering of a symbolic big integer with more than %d digits", maxSymDigits)})
	}
	nd := c + 1
	out := make(sstr, nd)
	sum := mkInt(0)
	pow := big.NewInt(1)
	for j := nd - 1; j >= 0; j-- {
		ch := px.freshDet(bvSort(8))
		px.assertPC(mkAnd(bvCmp("bvuge", ch, mkBV(8, '0')), bvCmp("bvule", ch, mkBV(8, '9'))))
		// digit value as Int via a 10-way table
		dv := mkInt(9)
		for k := 8; k >= 0; k-- {
			dv = mkIte(mkEq(ch, mkBV(8, uint64('0'+k))), mkInt(int64(k)), dv)
		}
		sum = intBin("+", sum, intBin("*", dv, mkIntBig(pow)))
		pow = new(big.Int).Mul(pow, ten)
		out[j] = symv{t: ch, k: types.Uint8}
	}
	px.assertPC(mkEq(sum, a))
	if px.decimals == nil {
		px.decimals = map[*Term]sstr{}
	}
	px.decimals[a] = out
	return out
}

// decimalBV renders a symbolic unsigned/signed machine integer in decimal.
func decimalBV(fr *frame, v symv) value {
	px := fr.px()
	if r, ok := px.decimals[v.t]; ok {
		return r
	}
	w, signed := kindWidth(v.k)
	if signed {
		if px.branch(bvCmp("bvslt", v.t, mkBV(w, 0))) {
			panic(pathLimit{"decimal rendering of a negative symbolic integer"})
		}
	}
	t := v.t
	ww := w
	if ww < 32 {
		t = bvZext(32, t)
		ww = 32
	}
	var conds []*Term
	lo := uint64(0)
	hi := uint64(10)
	for d := 1; d <= maxSymDigits; d++ {
		conds = append(conds, mkAnd(bvCmp("bvuge", t, mkBV(ww, lo)), bvCmp("bvult", t, mkBV(ww, hi))))
		lo = hi
		hi *= 10
	}
	conds = append(conds, bvCmp("bvuge", t, mkBV(ww, lo)))
	c := px.decideX(conds, true)
	if c == maxSymDigits {
		panic(pathLimit{fmt.Sprintf("decimal rendering of a symbolic integer with more than %d digits", maxSymDigits)})
	}
	nd := c + 1
	// on this path t < 10^maxSymDigits < 2^24: do the digit arithmetic in 24 bits
	const dw = 24
	out := make(sstr, nd)
	sum := mkBV(dw, 0)
	pow := uint64(1)
	for j := nd - 1; j >= 0; j-- {
		ch := px.freshDet(bvSort(8))
		px.assertPC(mkAnd(bvCmp("bvuge", ch, mkBV(8, '0')), bvCmp("bvule", ch, mkBV(8, '9'))))
		dv := bvBin("bvsub", bvZext(dw, ch), mkBV(dw, '0'))
		sum = bvBin("bvadd", sum, bvBin("bvmul", dv, mkBV(dw, pow)))
		pow *= 10
		out[j] = symv{t: ch, k: types.Uint8}
	}
	if nd > 1 {
		// no leading zero
		px.assertPC(mkNot(mkEq(termOf(out[0]), mkBV(8, '0'))))
	}
	px.assertPC(mkEq(sum, bvExtract(dw-1, 0, t)))
	if px.decimals == nil {
		px.decimals = map[*Term]sstr{}
	}
	px.decimals[v.t] = out
	return out
}
