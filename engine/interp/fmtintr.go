package interp

// fmt.Sprintf / Sprint / Errorf over byte-list strings with symbolic content.

import (
	"fmt"
	"go/token"
	"go/types"
	"strconv"
	"strings"
)

// callMethod calls method name on (t, v) if the method set of t has it; returns ok=false otherwise.
func (i *interpreter) callMethod(fr *frame, t types.Type, v value, name string) (value, bool) {
	ms := i.prog.MethodSets.MethodSet(t)
	for k := 0; k < ms.Len(); k++ {
		sel := ms.At(k)
		if sel.Obj().Name() != name {
			continue
		}
		fn := i.prog.MethodValue(sel)
		if fn == nil {
			return nil, false
		}
		return call(i, fr, token.NoPos, fn, []value{v}), true
	}
	return nil, false
}

func isNilValue(v value) bool {
	switch x := v.(type) {
	case *value:
		return x == nil
	case iface:
		return x.t == nil
	}
	return false
}

// fmtValue renders v (static/dynamic type t) for the given verb into byte elements.
func (i *interpreter) fmtValue(fr *frame, verb byte, plus bool, t types.Type, v value, depth int) []value {
	if depth > 6 {
		panic(engineError{"fmt: value nesting too deep"})
	}
	if t == nil {
		return strElems("<nil>")
	}
	// error / Stringer
	if verb == 'v' || verb == 's' {
		if _, isPtr := v.(*value); !(isPtr && isNilValue(v)) {
			if types.Implements(t, errorIface) || types.Implements(t, stringerIface) {
				for _, m := range []string{"Error", "String"} {
					if r, ok := i.callMethod(fr, t, v, m); ok {
						if rp, ok := r.(*rope); ok && rp.done == nil {
							return rp.parts
						}
						if isStr(r) {
							return strElems(r)
						}
					}
				}
			}
		} else if types.Implements(t, errorIface) || types.Implements(t, stringerIface) {
			return strElems("<nil>")
		}
	}
	switch x := v.(type) {
	case *rope:
		if x.done == nil && (verb == 's' || verb == 'v') {
			return x.parts
		}
		return i.fmtValue(fr, verb, plus, t, x.force(), depth)
	case string:
		switch verb {
		case 'x':
			return strElems(fmt.Sprintf("%x", x))
		case 'X':
			return strElems(fmt.Sprintf("%X", x))
		case 'q':
			return strElems(strconv.Quote(x))
		}
		return strElems(x)
	case sstr:
		if verb == 's' || verb == 'v' {
			return []value(x)
		}
		if verb == 'x' {
			return hexEncodeElems([]value(x), false)
		}
		if verb == 'X' {
			return hexEncodeElems([]value(x), true)
		}
		panic(engineError{"fmt: verb %" + string(verb) + " on symbolic string"})
	case bool:
		return strElems(strconv.FormatBool(x))
	case symv:
		if x.k == types.Bool {
			if fr.px().branch(x.t) {
				return strElems("true")
			}
			return strElems("false")
		}
		if verb == 'd' || verb == 'v' {
			return []value{lazyDec{fr: fr, v: x}}
		}
		panic(engineError{"fmt: verb %" + string(verb) + " on symbolic integer"})
	case int, int8, int16, int32, int64, uint, uint8, uint16, uint32, uint64, uintptr, float32, float64:
		switch verb {
		case 'v', 'd', 'x', 'X', 'c', 'q', 'o', 'b', 'f', 'g', 'e', 's', 'U':
			return strElems(fmt.Sprintf("%"+string(verb), x))
		}
		return strElems(fmt.Sprintf("%v", x))
	case iface:
		if x.t == nil {
			return strElems("<nil>")
		}
		return i.fmtValue(fr, verb, plus, x.t, x.v, depth+1)
	case []value:
		ut := t.Underlying()
		var et types.Type
		if sl, ok := ut.(*types.Slice); ok {
			et = sl.Elem()
		} else {
			panic(engineError{fmt.Sprintf("fmt: []value for type %s", t)})
		}
		if b, ok := et.Underlying().(*types.Basic); ok && b.Kind() == types.Uint8 {
			switch verb {
			case 's':
				return x
			case 'x':
				return hexEncodeElems(x, false)
			case 'X':
				return hexEncodeElems(x, true)
			}
		}
		return i.fmtSeq(fr, verb, plus, et, x, depth)
	case array:
		et := t.Underlying().(*types.Array).Elem()
		if b, ok := et.Underlying().(*types.Basic); ok && b.Kind() == types.Uint8 {
			switch verb {
			case 'x':
				return hexEncodeElems([]value(x), false)
			case 'X':
				return hexEncodeElems([]value(x), true)
			}
		}
		return i.fmtSeq(fr, verb, plus, et, []value(x), depth)
	case structure:
		st, ok := t.Underlying().(*types.Struct)
		if !ok {
			panic(engineError{fmt.Sprintf("fmt: structure for type %s", t)})
		}
		out := strElems("{")
		for k := range x {
			if k > 0 {
				out = append(out, uint8(' '))
			}
			if plus {
				out = append(out, strElems(st.Field(k).Name()+":")...)
			}
			out = append(out, i.fmtValue(fr, verb, plus, st.Field(k).Type(), x[k], depth+1)...)
		}
		return append(out, uint8('}'))
	case *value:
		if x == nil {
			return strElems("<nil>")
		}
		if pt, ok := t.Underlying().(*types.Pointer); ok {
			if _, ok := pt.Elem().Underlying().(*types.Struct); ok && depth == 0 {
				return append(strElems("&"), i.fmtValue(fr, verb, plus, pt.Elem(), *x, depth+1)...)
			}
		}
		return strElems("0xc000000000")
	case map[value]value, *hashmap:
		panic(engineError{"fmt: map formatting not modelled"})
	}
	return strElems(fmt.Sprintf("<%T>", v))
}

func (i *interpreter) fmtSeq(fr *frame, verb byte, plus bool, et types.Type, xs []value, depth int) []value {
	out := strElems("[")
	for k, e := range xs {
		if k > 0 {
			out = append(out, uint8(' '))
		}
		out = append(out, i.fmtValue(fr, verb, plus, et, e, depth+1)...)
	}
	return append(out, uint8(']'))
}

func hexEncodeElems(bs []value, upper bool) []value {
	tbl := "0123456789abcdef"
	if upper {
		tbl = "0123456789ABCDEF"
	}
	out := make([]value, 0, 2*len(bs))
	for _, b := range bs {
		switch c := b.(type) {
		case uint8:
			out = append(out, tbl[c>>4], tbl[c&15])
		case symv:
			out = append(out, nibbleChar(bvExtract(7, 4, c.t), upper), nibbleChar(bvExtract(3, 0, c.t), upper))
		}
	}
	return out
}

func nibbleChar(n *Term, upper bool) value {
	n8 := bvZext(8, n)
	a := uint64('a')
	if upper {
		a = 'A'
	}
	r := mkIte(bvCmp("bvult", n8, mkBV(8, 10)), bvBin("bvadd", n8, mkBV(8, '0')), bvBin("bvadd", n8, mkBV(8, a-10)))
	return mkVal(r, types.Uint8)
}

var (
	errorIface    *types.Interface
	stringerIface *types.Interface
)

func init() {
	errorIface = types.Universe.Lookup("error").Type().Underlying().(*types.Interface)
	sig := types.NewSignatureType(nil, nil, nil, nil, types.NewTuple(types.NewVar(token.NoPos, nil, "", types.Typ[types.String])), false)
	stringerIface = types.NewInterfaceType([]*types.Func{types.NewFunc(token.NoPos, nil, "String", sig)}, nil)
	stringerIface.Complete()
}

// sprintf implements the formatting loop. args are the boxed ...interface{} values.
func (i *interpreter) sprintf(fr *frame, format string, args []value) []value {
	var out []value
	argi := 0
	for p := 0; p < len(format); p++ {
		c := format[p]
		if c != '%' {
			out = append(out, c)
			continue
		}
		p++
		if p >= len(format) {
			out = append(out, strElems("%!(NOVERB)")...)
			break
		}
		plus := false
		spec := "%"
		for p < len(format) && strings.IndexByte("+-# 0123456789.", format[p]) >= 0 {
			if format[p] == '+' {
				plus = true
			}
			spec += string(format[p])
			p++
		}
		if p >= len(format) {
			break
		}
		verb := format[p]
		if verb == '%' {
			out = append(out, uint8('%'))
			continue
		}
		if argi >= len(args) {
			out = append(out, strElems("%!"+string(verb)+"(MISSING)")...)
			continue
		}
		a := args[argi].(iface)
		argi++
		if verb == 'w' {
			verb = 'v'
		}
		if verb == 'T' {
			if a.t == nil {
				out = append(out, strElems("<nil>")...)
			} else {
				out = append(out, strElems(a.t.String())...)
			}
			continue
		}
		// width/precision flags on concrete basic values: defer to real fmt
		if len(spec) > 1 && !hasSym(a.v) {
			switch x := a.v.(type) {
			case string, bool, int, int8, int16, int32, int64, uint, uint8, uint16, uint32, uint64, uintptr, float32, float64:
				out = append(out, strElems(fmt.Sprintf(spec+string(verb), x))...)
				continue
			}
		}
		out = append(out, i.fmtValue(fr, verb, plus, a.t, a.v, 0)...)
	}
	if argi < len(args) {
		out = append(out, strElems("%!(EXTRA ...)")...)
	}
	return out
}

func (i *interpreter) sprint(fr *frame, args []value, ln bool) []value {
	var out []value
	prevStr := false
	for k, a := range args {
		ia := a.(iface)
		isS := ia.t != nil && isStr(ia.v)
		if k > 0 && (ln || (!isS && !prevStr)) {
			out = append(out, uint8(' '))
		}
		out = append(out, i.fmtValue(fr, 'v', false, ia.t, ia.v, 0)...)
		prevStr = isS
	}
	if ln {
		out = append(out, uint8('\n'))
	}
	return out
}

// mkError builds an error value carrying msg and an optional wrapped cause.
// Represented with the interpreter's own error type: structure{msg, cause iface}.
type engErr struct {
	msg   value // string or sstr
	cause iface
}

func (i *interpreter) newError(msg value, cause iface) iface {
	return iface{t: errorType, v: &engErr{msg: msg, cause: cause}}
}

func init() {
	externals["fmt.Sprintf"] = func(fr *frame, args []value) value {
		f, ok := args[0].(string)
		if !ok {
			panic(engineError{"fmt.Sprintf with symbolic format"})
		}
		return mkRope(fr.i.sprintf(fr, f, args[1].([]value)))
	}
	externals["fmt.Sprint"] = func(fr *frame, args []value) value {
		return mkRope(fr.i.sprint(fr, args[0].([]value), false))
	}
	externals["fmt.Sprintln"] = func(fr *frame, args []value) value {
		return mkRope(fr.i.sprint(fr, args[0].([]value), true))
	}
	externals["fmt.Errorf"] = func(fr *frame, args []value) value {
		// message text is kept opaque (the unformatted format string); %w cause is retained
		f, _ := args[0].(string)
		var cause iface
		argv := args[1].([]value)
		ai := 0
		for p := 0; p+1 < len(f); p++ {
			if f[p] == '%' {
				if f[p+1] == '%' {
					p++
					continue
				}
				q := p + 1
				for q < len(f) && strings.IndexByte("+-# 0123456789.", f[q]) >= 0 {
					q++
				}
				if q < len(f) && f[q] == 'w' && ai < len(argv) {
					if c, ok := argv[ai].(iface); ok && c.t != nil {
						cause = c
					}
				}
				ai++
				p = q
			}
		}
		return fr.i.newError(f, cause)
	}
	for _, n := range []string{"fmt.Println", "fmt.Printf", "fmt.Print", "fmt.Fprintf", "fmt.Fprintln", "fmt.Fprint"} {
		n := n
		externals[n] = func(fr *frame, args []value) value {
			return tuple{int(0), iface{}}
		}
	}
	externals["(reflect.error).Error"] = func(fr *frame, args []value) value {
		switch e := args[0].(type) {
		case *engErr:
			return e.msg
		case string:
			return e
		}
		return "error"
	}
}

// mkRope builds a string from formatted pieces, staying lazy when a piece is a lazyDec.
func mkRope(parts []value) value {
	for _, p := range parts {
		if _, ok := p.(lazyDec); ok {
			return &rope{parts: parts}
		}
	}
	return mkStr(parts)
}

// lazyOK lists intrinsics that accept lazily rendered strings as arguments without inspecting them.
var lazyOK = map[string]bool{
	"fmt.Sprintf": true, "fmt.Sprint": true, "fmt.Sprintln": true, "fmt.Errorf": true,
	"cosmossdk.io/errors.Wrapf":      true,
	"(*strings.Builder).WriteString": true, "(*strings.Builder).String": true,
	"(*math/big.Int).SetString": true,
}
