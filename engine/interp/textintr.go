package interp

// Text-level intrinsics: regexp (symbolic NFA simulation), hex, bech32, EIP-55.

import (
	"fmt"
	"go/types"
	"regexp"
	"regexp/syntax"
	"strings"
	"sync"
)

// ---------------------------------------------------------------------------------------------
// regexp

var (
	reMu    sync.Mutex
	reCache = map[string]*reEntry{}
)

type reEntry struct {
	re   *regexp.Regexp
	prog *syntax.Prog
	err  error
}

func compileRe(expr string) *reEntry {
	reMu.Lock()
	defer reMu.Unlock()
	if e, ok := reCache[expr]; ok {
		return e
	}
	e := &reEntry{}
	e.re, e.err = regexp.Compile(expr)
	if e.err == nil {
		rs, err := syntax.Parse(expr, syntax.Perl)
		if err == nil {
			e.prog, e.err = syntax.Compile(rs.Simplify())
		} else {
			e.err = err
		}
	}
	reCache[expr] = e
	return e
}

func runeCond(inst *syntax.Inst, c *Term) *Term {
	// c: BV8 ASCII char
	switch inst.Op {
	case syntax.InstRuneAny:
		return tTrue
	case syntax.InstRuneAnyNotNL:
		return mkNot(mkEq(c, mkBV(8, '\n')))
	}
	fold := syntax.Flags(inst.Arg)&syntax.FoldCase != 0
	rs := inst.Rune
	if len(rs) == 1 {
		r := rs[0]
		if r > 127 {
			return tFalse
		}
		cond := mkEq(c, mkBV(8, uint64(r)))
		if fold {
			if r >= 'a' && r <= 'z' {
				cond = mkOr(cond, mkEq(c, mkBV(8, uint64(r-32))))
			} else if r >= 'A' && r <= 'Z' {
				cond = mkOr(cond, mkEq(c, mkBV(8, uint64(r+32))))
			}
		}
		return cond
	}
	cond := tFalse
	for j := 0; j+1 < len(rs); j += 2 {
		lo, hi := rs[j], rs[j+1]
		if lo > 127 {
			continue
		}
		if hi > 127 {
			hi = 127
		}
		if lo == hi {
			cond = mkOr(cond, mkEq(c, mkBV(8, uint64(lo))))
		} else {
			cond = mkOr(cond, mkAnd(bvCmp("bvuge", c, mkBV(8, uint64(lo))), bvCmp("bvule", c, mkBV(8, uint64(hi)))))
		}
	}
	return cond
}

// symMatch simulates the compiled program over a string of known length with symbolic bytes
// (all bytes must be ASCII: callers fork on that). Unanchored semantics like MatchString.
func symMatch(prog *syntax.Prog, s []value) *Term {
	n := len(s)
	chars := make([]*Term, n)
	for i, e := range s {
		chars[i] = termOf(e)
	}
	// active[pc] = condition under which thread at pc is alive before consuming position i
	nI := len(prog.Inst)
	matched := tFalse
	var addThread func(active []*Term, pc int, cond *Term, pos int, seen map[int]bool)
	addThread = func(active []*Term, pc int, cond *Term, pos int, seen map[int]bool) {
		if cond.isFalse() {
			return
		}
		inst := &prog.Inst[pc]
		switch inst.Op {
		case syntax.InstAlt, syntax.InstAltMatch:
			addThread(active, int(inst.Out), cond, pos, seen)
			addThread(active, int(inst.Arg), cond, pos, seen)
		case syntax.InstNop, syntax.InstCapture:
			addThread(active, int(inst.Out), cond, pos, seen)
		case syntax.InstEmptyWidth:
			ok := true
			e := syntax.EmptyOp(inst.Arg)
			if e&(syntax.EmptyBeginText|syntax.EmptyBeginLine) != 0 && pos != 0 {
				if e&syntax.EmptyBeginText != 0 {
					ok = false
				} else {
					panic(engineError{"regexp: multi-line anchors not modelled"})
				}
			}
			if e&(syntax.EmptyEndText|syntax.EmptyEndLine) != 0 && pos != n {
				if e&syntax.EmptyEndText != 0 {
					ok = false
				} else {
					panic(engineError{"regexp: multi-line anchors not modelled"})
				}
			}
			if e&(syntax.EmptyWordBoundary|syntax.EmptyNoWordBoundary) != 0 {
				panic(engineError{"regexp: word boundaries not modelled"})
			}
			if ok {
				addThread(active, int(inst.Out), cond, pos, seen)
			}
		case syntax.InstMatch:
			matched = mkOr(matched, cond)
		case syntax.InstFail:
		default: // rune instructions
			active[pc] = mkOr(active[pc], cond)
		}
	}
	newActive := func() []*Term {
		a := make([]*Term, nI)
		for i := range a {
			a[i] = tFalse
		}
		return a
	}
	cur := newActive()
	for pos := 0; pos <= n; pos++ {
		// unanchored: a new thread may start at every position
		addThread(cur, prog.Start, tTrue, pos, nil)
		if pos == n {
			break
		}
		next := newActive()
		for pc := 0; pc < nI; pc++ {
			if cur[pc].isFalse() {
				continue
			}
			inst := &prog.Inst[pc]
			c := mkAnd(cur[pc], runeCond(inst, chars[pos]))
			addThread(next, int(inst.Out), c, pos+1, nil)
		}
		cur = next
	}
	return matched
}

// asciiOnlyProg reports whether every consuming instruction matches ASCII runes only; then a
// byte-level simulation is exact for arbitrary (also invalid UTF-8) input: bytes >= 0x80 match nothing.
func asciiOnlyProg(p *syntax.Prog) bool {
	for i := range p.Inst {
		in := &p.Inst[i]
		switch in.Op {
		case syntax.InstRuneAny, syntax.InstRuneAnyNotNL:
			return false
		case syntax.InstRune, syntax.InstRune1:
			for _, r := range in.Rune {
				if r > 127 {
					return false
				}
			}
		}
	}
	return true
}

func reExpr(recv value) string {
	p := recv.(*value)
	if p == nil {
		panic(targetPanic{iface{rtErrType, "runtime error: invalid memory address or nil pointer dereference (nil *regexp.Regexp)"}})
	}
	s := (*p).(structure)
	e, _ := s[0].(string)
	return e
}

func init() {
	E := externals
	mk := func(fr *frame, expr value, must bool) value {
		s, ok := expr.(string)
		if !ok {
			panic(engineError{"regexp.Compile of symbolic pattern"})
		}
		e := compileRe(s)
		if e.err != nil {
			if must {
				panic(targetPanic{iface{rtErrType, "regexp: Compile(" + s + "): " + e.err.Error()}})
			}
			return tuple{(*value)(nil), fr.i.newError(e.err.Error(), iface{})}
		}
		// allocate a Regexp struct value and stash the expression in field 0
		rt := fr.i.prog.ImportedPackage("regexp").Type("Regexp").Type()
		cell := zero(rt)
		cell.(structure)[0] = s
		var v value = cell
		if must {
			return &v
		}
		return tuple{&v, iface{}}
	}
	E["regexp.MustCompile"] = func(fr *frame, args []value) value { return mk(fr, args[0], true) }
	E["regexp.Compile"] = func(fr *frame, args []value) value { return mk(fr, args[0], false) }
	E["regexp.MatchString"] = func(fr *frame, args []value) value {
		pat, ok := args[0].(string)
		if !ok {
			panic(engineError{"regexp.MatchString symbolic pattern"})
		}
		e := compileRe(pat)
		if e.err != nil {
			return tuple{false, fr.i.newError(e.err.Error(), iface{})}
		}
		return tuple{matchValue(fr, e, args[1]), iface{}}
	}
	E["(*regexp.Regexp).MatchString"] = func(fr *frame, args []value) value {
		return matchValue(fr, compileRe(reExpr(args[0])), args[1])
	}
	E["(*regexp.Regexp).Match"] = func(fr *frame, args []value) value {
		return matchValue(fr, compileRe(reExpr(args[0])), mkStr(args[1].([]value)))
	}
	E["(*regexp.Regexp).String"] = func(fr *frame, args []value) value { return reExpr(args[0]) }
	E["(*regexp.Regexp).FindStringSubmatch"] = func(fr *frame, args []value) value {
		s, ok := args[1].(string)
		if !ok {
			panic(engineError{"regexp FindStringSubmatch on symbolic string"})
		}
		e := compileRe(reExpr(args[0]))
		m := e.re.FindStringSubmatch(s)
		if m == nil {
			return []value(nil)
		}
		out := make([]value, len(m))
		for i := range m {
			out[i] = m[i]
		}
		return out
	}

	// --- encoding/hex
	E["encoding/hex.DecodeString"] = func(fr *frame, args []value) value {
		s := strElems(args[0])
		return hexDecode(fr, s)
	}
	E["encoding/hex.EncodeToString"] = func(fr *frame, args []value) value {
		return mkStr(hexEncodeElems(args[0].([]value), false))
	}
	E["encoding/hex.Encode"] = func(fr *frame, args []value) value {
		dst := args[0].([]value)
		enc := hexEncodeElems(args[1].([]value), false)
		if len(dst) < len(enc) {
			panic(rtErr(fr.i, "index out of range (hex.Encode dst too short)"))
		}
		copy(dst, enc)
		return len(enc)
	}
	E["github.com/ethereum/go-ethereum/common.isHex"] = func(fr *frame, args []value) value {
		s := strElems(args[0])
		if len(s)%2 != 0 {
			return false
		}
		ok := tTrue
		for _, e := range s {
			ok = mkAnd(ok, isHexCharTerm(termOf(e)))
		}
		return mkVal(ok, types.Bool)
	}
	// EIP-55 checksummed rendering: case bits are an uninterpreted function of the address.
	E["(*github.com/ethereum/go-ethereum/common.Address).checksumHex"] = func(fr *frame, args []value) value {
		p := args[0].(*value)
		if p == nil {
			panic(rtErr(fr.i, "invalid memory address or nil pointer dereference"))
		}
		a := (*p).(array)
		if cb, ok := concBytes([]value(a)); ok {
			return bytesToElems([]byte(eip55(cb)))
		}
		px := fr.px()
		lower := hexEncodeElems([]value(a), false)
		bits := make([]value, 40)
		for j := range bits {
			bits[j] = symv{t: px.freshVar("", boolSort), k: types.Bool}
		}
		px.addFunctional("eip55-case", []value(a), bits)
		px.w.ex.noteAssumption("EIP-55 letter case of a symbolic address is an uninterpreted function of the 20 address bytes")
		out := []value{uint8('0'), uint8('x')}
		for j, ch := range lower {
			ct := termOf(ch)
			isLetter := bvCmp("bvuge", ct, mkBV(8, 'a'))
			up := mkIte(mkAnd(isLetter, termOf(bits[j])), bvBin("bvsub", ct, mkBV(8, 32)), ct)
			out = append(out, mkVal(up, types.Uint8))
		}
		return out
	}

	// --- bech32
	E["github.com/cosmos/cosmos-sdk/types/bech32.ConvertAndEncode"] = func(fr *frame, args []value) value {
		hrp, ok := args[0].(string)
		if !ok {
			panic(engineError{"bech32 with symbolic prefix"})
		}
		data := args[1].([]value)
		if cb, ok := concBytes(data); ok {
			s, err := bech32Encode(hrp, cb)
			if err != nil {
				return tuple{"", fr.i.newError(err.Error(), iface{})}
			}
			if fr.i.px != nil {
				fr.i.px.addBech32(hrp, data, strElems(s))
			}
			return tuple{s, iface{}}
		}
		px := fr.px()
		n := len(hrp) + 1 + (len(data)*8+4)/5 + 6
		out := make([]value, 0, n)
		out = append(out, strElems(hrp+"1")...)
		for len(out) < n {
			ch := px.freshVar("", bvSort(8))
			px.assertPC(mkOr(mkAnd(bvCmp("bvuge", ch, mkBV(8, '0')), bvCmp("bvule", ch, mkBV(8, '9'))),
				mkAnd(bvCmp("bvuge", ch, mkBV(8, 'a')), bvCmp("bvule", ch, mkBV(8, 'z')))))
			out = append(out, symv{t: ch, k: types.Uint8})
		}
		px.addBech32(hrp, data, out)
		px.w.ex.noteAssumption("bech32 of symbolic bytes is an injective encoding into [0-9a-z] after the concrete prefix (checksum not modelled)")
		return tuple{mkStr(out), iface{}}
	}
	E["github.com/cosmos/cosmos-sdk/types/bech32.DecodeAndConvert"] = func(fr *frame, args []value) value {
		if s, ok := args[0].(string); ok {
			hrp, data, err := bech32Decode(s)
			if err != nil {
				return tuple{"", []value(nil), fr.i.newError("decoding bech32 failed: "+err.Error(), iface{})}
			}
			return tuple{hrp, bytesToElems(data), iface{}}
		}
		px := fr.px()
		ss := strElems(args[0])
		// a string produced by ConvertAndEncode on this path?
		for _, r := range px.bech {
			if sameElems(r.str, ss) {
				return tuple{r.hrp, append([]value{}, r.data...), iface{}}
			}
		}
		// arbitrary symbolic text: either equal to one of the known encodings, or treated as invalid/unknown
		for _, r := range px.bech {
			eq := elemsEq(r.str, ss)
			if b, ok := eq.(bool); ok {
				if b {
					return tuple{r.hrp, append([]value{}, r.data...), iface{}}
				}
				continue
			}
			if px.branch(termOf(eq)) {
				return tuple{r.hrp, append([]value{}, r.data...), iface{}}
			}
		}
		// find "1" separator position: require concrete hrp prefix shape "xx1"
		if len(ss) < 8 {
			return tuple{"", []value(nil), fr.i.newError("decoding bech32 failed: invalid bech32 string length", iface{})}
		}
		px.w.ex.noteAssumption("bech32 decoding of an arbitrary symbolic string: validity is an unconstrained boolean; decoded bytes are fresh and tied injectively to the text")
		valid := px.freshVar("", boolSort)
		if !px.branch(valid) {
			return tuple{"", []value(nil), fr.i.newError("decoding bech32 failed", iface{})}
		}
		// valid: need concrete separator to know hrp; fork on position of last '1'
		var conds []*Term
		for pos := len(ss) - 7; pos >= 1; pos-- {
			conds = append(conds, mkEq(termOf(ss[pos]), mkBV(8, '1')))
		}
		if len(conds) == 0 {
			panic(pathAbort{"bech32: too short to be valid"})
		}
		// choose the last '1': build exclusive conditions
		excl := make([]*Term, len(conds))
		none := tTrue
		for j, c := range conds {
			excl[j] = mkAnd(none, c)
			none = mkAnd(none, mkNot(c))
		}
		k := px.decide(excl)
		pos := len(ss) - 7 - k
		hrpElems := ss[:pos]
		hb, ok := concBytes(hrpElems)
		if !ok {
			// symbolic prefix: the decoded bytes are fresh and not tied to an encoding (callers
			// reject the address on the prefix comparison or use the bytes as an opaque account)
			nData := (len(ss) - pos - 1 - 6) * 5 / 8
			data := make([]value, nData)
			for j := range data {
				data[j] = symv{t: px.freshVar("", bvSort(8)), k: types.Uint8}
			}
			return tuple{sstr(append([]value(nil), hrpElems...)), data, iface{}}
		}
		nData := (len(ss) - pos - 1 - 6) * 5 / 8
		data := make([]value, nData)
		for j := range data {
			data[j] = symv{t: px.freshVar("", bvSort(8)), k: types.Uint8}
		}
		px.addBech32(string(hb), data, ss)
		return tuple{string(hb), data, iface{}}
	}
}

func sameElems(a, b []value) bool {
	if len(a) != len(b) {
		return false
	}
	for i := range a {
		sa, oka := a[i].(symv)
		sb, okb := b[i].(symv)
		if oka != okb {
			return false
		}
		if oka {
			if sa.t != sb.t {
				return false
			}
		} else if a[i] != b[i] {
			return false
		}
	}
	return true
}

type bechRec struct {
	hrp  string
	data []value
	str  []value
}

func (px *pathCtx) addBech32(hrp string, data, str []value) {
	for _, r := range px.bech {
		if r.hrp != hrp {
			continue
		}
		de := elemsEq(r.data, data)
		se := elemsEq(r.str, str)
		if _, ok := de.(bool); ok {
			if _, ok2 := se.(bool); ok2 {
				continue
			}
		}
		px.assertPC(mkEq(termOf(de), termOf(se)))
	}
	px.bech = append(px.bech, bechRec{hrp: hrp, data: append([]value{}, data...), str: append([]value{}, str...)})
}

// addFunctional records out = f(pre) for an uninterpreted function f: equal pre-images give equal outputs.
func (px *pathCtx) addFunctional(fname string, pre, out []value) {
	if px.funcs == nil {
		px.funcs = map[string][]hashRec{}
	}
	for _, h := range px.funcs[fname] {
		pe := elemsEq(h.pre, pre)
		if b, ok := pe.(bool); ok && !b {
			continue
		}
		oe := tTrue
		for j := range out {
			oe = mkAnd(oe, mkEq(termOf(h.out[j]), termOf(out[j])))
		}
		px.assertPC(mkImplies(termOf(pe), oe))
	}
	px.funcs[fname] = append(px.funcs[fname], hashRec{pre: append([]value{}, pre...), out: out})
}

func isHexCharTerm(c *Term) *Term {
	in := func(lo, hi byte) *Term {
		return mkAnd(bvCmp("bvuge", c, mkBV(8, uint64(lo))), bvCmp("bvule", c, mkBV(8, uint64(hi))))
	}
	return mkOr(in('0', '9'), mkOr(in('a', 'f'), in('A', 'F')))
}

func hexNibble(c *Term) *Term {
	// assumes c is a hex char
	return mkIte(bvCmp("bvule", c, mkBV(8, '9')), bvBin("bvsub", c, mkBV(8, '0')),
		mkIte(bvCmp("bvule", c, mkBV(8, 'F')), bvBin("bvsub", c, mkBV(8, 'A'-10)), bvBin("bvsub", c, mkBV(8, 'a'-10))))
}

// hexDecode implements hex.DecodeString: (bytes, error).
func hexDecode(fr *frame, s []value) value {
	allOK := tTrue
	for _, e := range s {
		allOK = mkAnd(allOK, isHexCharTerm(termOf(e)))
	}
	errv := func(msg string) value { return fr.i.newError(msg, iface{}) }
	ok := true
	if !allOK.isConst() {
		ok = fr.px().branch(allOK)
	} else {
		ok = allOK.isTrue()
	}
	if !ok {
		// real hex returns the bytes decoded before the error; callers here only test err
		return tuple{[]value{}, errv("encoding/hex: invalid byte")}
	}
	out := make([]value, 0, len(s)/2)
	for j := 0; j+1 < len(s); j += 2 {
		hi := hexNibble(termOf(s[j]))
		lo := hexNibble(termOf(s[j+1]))
		out = append(out, mkVal(bvBin("bvor", bvBin("bvshl", hi, mkBV(8, 4)), lo), types.Uint8))
	}
	if len(s)%2 == 1 {
		return tuple{out, errv("encoding/hex: odd length hex string")}
	}
	return tuple{out, iface{}}
}

func matchValue(fr *frame, e *reEntry, sv value) value {
	if e.err != nil {
		panic(engineError{"regexp: " + e.err.Error()})
	}
	if s, ok := sv.(string); ok {
		return e.re.MatchString(s)
	}
	s := strElems(sv)
	if !asciiOnlyProg(e.prog) {
		// programs that can consume non-ASCII runes need rune-level simulation: restrict to ASCII
		fr.requireASCII(s, "regexp match")
	}
	return mkVal(symMatch(e.prog, s), types.Bool)
}

// --- concrete helpers

func eip55(addr []byte) string {
	hexs := fmt.Sprintf("%x", addr)
	h := keccak256([]byte(hexs))
	out := []byte("0x" + hexs)
	for i := 0; i < len(hexs); i++ {
		hb := h[i/2]
		if i%2 == 0 {
			hb >>= 4
		} else {
			hb &= 0xf
		}
		if out[i+2] > '9' && hb > 7 {
			out[i+2] -= 32
		}
	}
	return string(out)
}

const bechCharset = "qpzry9x8gf2tvdw0s3jn54khce6mua7l"

func bechPolymod(values []byte) uint32 {
	gen := []uint32{0x3b6a57b2, 0x26508e6d, 0x1ea119fa, 0x3d4233dd, 0x2a1462b3}
	chk := uint32(1)
	for _, v := range values {
		top := chk >> 25
		chk = (chk&0x1ffffff)<<5 ^ uint32(v)
		for i := 0; i < 5; i++ {
			if (top>>uint(i))&1 == 1 {
				chk ^= gen[i]
			}
		}
	}
	return chk
}

func bechHrpExpand(hrp string) []byte {
	var v []byte
	for i := 0; i < len(hrp); i++ {
		v = append(v, hrp[i]>>5)
	}
	v = append(v, 0)
	for i := 0; i < len(hrp); i++ {
		v = append(v, hrp[i]&31)
	}
	return v
}

func convertBits(data []byte, from, to uint, pad bool) ([]byte, error) {
	acc, bits := uint32(0), uint(0)
	var out []byte
	maxv := uint32(1)<<to - 1
	for _, b := range data {
		if uint32(b)>>from != 0 {
			return nil, fmt.Errorf("invalid data range")
		}
		acc = acc<<from | uint32(b)
		bits += from
		for bits >= to {
			bits -= to
			out = append(out, byte(acc>>bits&maxv))
		}
	}
	if pad {
		if bits > 0 {
			out = append(out, byte(acc<<(to-bits)&maxv))
		}
	} else if bits >= from || (acc<<(to-bits))&maxv != 0 {
		return nil, fmt.Errorf("invalid incomplete group")
	}
	return out, nil
}

func bech32Encode(hrp string, data []byte) (string, error) {
	conv, err := convertBits(data, 8, 5, true)
	if err != nil {
		return "", err
	}
	values := append(bechHrpExpand(hrp), conv...)
	values = append(values, 0, 0, 0, 0, 0, 0)
	pm := bechPolymod(values) ^ 1
	var sb strings.Builder
	sb.WriteString(hrp + "1")
	for _, c := range conv {
		sb.WriteByte(bechCharset[c])
	}
	for i := 0; i < 6; i++ {
		sb.WriteByte(bechCharset[(pm>>uint(5*(5-i)))&31])
	}
	return sb.String(), nil
}

func bech32Decode(s string) (string, []byte, error) {
	if len(s) < 8 {
		return "", nil, fmt.Errorf("invalid bech32 string length %d", len(s))
	}
	lower, upper := false, false
	for i := 0; i < len(s); i++ {
		c := s[i]
		if c < 33 || c > 126 {
			return "", nil, fmt.Errorf("invalid character in string: '%c'", c)
		}
		if c >= 'a' && c <= 'z' {
			lower = true
		}
		if c >= 'A' && c <= 'Z' {
			upper = true
		}
	}
	if lower && upper {
		return "", nil, fmt.Errorf("string not all lowercase or all uppercase")
	}
	s = strings.ToLower(s)
	one := strings.LastIndexByte(s, '1')
	if one < 1 || one+7 > len(s) {
		return "", nil, fmt.Errorf("invalid index of 1")
	}
	hrp := s[:one]
	var dec []byte
	for i := one + 1; i < len(s); i++ {
		k := strings.IndexByte(bechCharset, s[i])
		if k < 0 {
			return "", nil, fmt.Errorf("invalid character not part of charset: %v", s[i])
		}
		dec = append(dec, byte(k))
	}
	if bechPolymod(append(bechHrpExpand(hrp), dec...)) != 1 {
		return "", nil, fmt.Errorf("invalid checksum")
	}
	data, err := convertBits(dec[:len(dec)-6], 5, 8, false)
	if err != nil {
		return "", nil, err
	}
	return hrp, data, nil
}
