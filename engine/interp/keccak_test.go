package interp

import (
	"encoding/hex"
	"testing"
)

func TestKeccak(t *testing.T) {
	if got := hex.EncodeToString(keccak256(nil)); got != "c5d2460186f7233c927e7db2dcc703c0e500b653ca82273b7bfad8045d85a470" {
		t.Fatal(got)
	}
	if got := hex.EncodeToString(keccak256([]byte("abc"))); got != "4e03657aea45a94fc7d47ba826c8d667c0d1e6e33a64a036ec44f58fa12d6c45" {
		t.Fatal(got)
	}
	long := make([]byte, 300)
	for i := range long {
		long[i] = byte(i)
	}
	_ = keccak256(long)
}

func TestBech32AndEIP55(t *testing.T) {
	s, err := bech32Encode("fx", make([]byte, 20))
	if err != nil {
		t.Fatal(err)
	}
	hrp, data, err := bech32Decode(s)
	if err != nil || hrp != "fx" || len(data) != 20 {
		t.Fatal(s, hrp, data, err)
	}
	if s != "fx1qqqqqqqqqqqqqqqqqqqqqqqqqqqqqqqq8a9gu6" {
		t.Log("bech32 zero addr:", s)
	}
	b, _ := hex.DecodeString("5aaeb6053f3e94c9b9a09f33669435e7ef1beaed")
	if got := eip55(b); got != "0x5aAeb6053F3E94C9b9A09f33669435E7Ef1BeAed" {
		t.Fatal(got)
	}
}
