package interp

// Path exploration by re-execution with a decision prefix; obligations; cover points.

import (
	"fmt"
	"go/token"
	"go/types"
	"math/big"
	"os"
	"runtime"
	"sort"
	"strings"
	"sync"
	"time"

	"golang.org/x/tools/go/ssa"
)

// control-flow panics of the engine (never target panics)
type pathAbort struct{ why string } // infeasible / assumption false: silently drop the path
type pathLimit struct{ why string } // step/unwind budget exceeded: path is inconclusive

type knownReg struct {
	id   string
	cond *Term
}

type Violation struct {
	Harness   string            `json:"harness"`
	Label     string            `json:"label"`
	Kind      string            `json:"kind"` // assert | panic
	Model     map[string]string `json:"model"`
	Decisions []int             `json:"decisions"`
	Detail    string            `json:"detail,omitempty"`
	Pos       string            `json:"pos,omitempty"`
}

type ObligQuery struct {
	SMT    string
	Result string
	Label  string
}

type Inconclusive struct {
	Harness string `json:"harness"`
	Why     string `json:"why"`
	Pos     string `json:"pos,omitempty"`
}

type KnownHit struct {
	ID      string            `json:"id"`
	Harness string            `json:"harness"`
	Label   string            `json:"label"`
	Model   map[string]string `json:"model"`
}

// HarnessResult aggregates everything observed while exploring one harness.
type HarnessResult struct {
	mu              sync.Mutex
	Name            string
	Paths           int
	SymbolicPaths   int // completed paths with at least one symbolic decision
	Aborted         int // paths dropped because an assumption was infeasible
	Obligations     int
	Discharged      int
	TrivialOblig    int // obligations whose condition was concretely true
	ImplicitNoPanic int // paths that ended without a panic (implicit obligation per path)
	Violations      []Violation
	Inconclusive    []Inconclusive
	KnownHits       []KnownHit
	Covers          map[string]map[string]string // label -> sample model
	CoverCount      map[string]int
	Funcs           map[string]int64 // fx-core function -> instructions executed
	Intrinsics      map[string]int
	Assumptions     map[string]bool
	Feasibility     int
	ObligQueries    int
	SolverTime      time.Duration
	SolverErrors    int
	Steps           int64
	MaxDecisions    int
	Wall            time.Duration
	PathLimitHit    bool
	ObligSMT        []ObligQuery   // obligation queries as standalone SMT-LIB2 text (for cross-checking)
	Panics          map[string]int // expected (tolerated) panic messages and their counts
	Witnesses       []Witness      // models of passing paths, for native conformance replay
	witnessSeen     int
}

// Witness is a model of the inputs of one passing path together with what the engine observed
// on it; the native run on the same inputs must observe the same.
type Witness struct {
	Model  map[string]string `json:"model"`
	Covers []string          `json:"covers"`
}

func newHarnessResult(name string) *HarnessResult {
	return &HarnessResult{Name: name, Covers: map[string]map[string]string{}, CoverCount: map[string]int{},
		Funcs: map[string]int64{}, Intrinsics: map[string]int{}, Assumptions: map[string]bool{}, Panics: map[string]int{}}
}

// Options for one harness exploration.
type Options struct {
	Workers      int
	SolverName   string
	TimeoutMs    int
	MaxSteps     int64 // per path
	MaxPaths     int
	MaxDecisions int
	Known        map[string]bool // known-finding ids (from known_findings.json) applicable
	LogDir       string
	Trace        bool
	KeepSMT      bool
	PanicOK      bool // target panics escaping the harness are tolerated (counted), not violations
	Deadline     time.Time
	Witnesses    int // passing paths (without uninterpreted values) whose model is kept for native conformance replay
}

type pathCtx struct {
	w          *worker
	solver     *Solver
	prefix     []int
	decisions  []int
	symDecs    int
	vars       []*Term
	varNames   map[string]bool
	steps      int64
	known      []knownReg
	pcTerms    []*Term // asserted path-condition terms, for exporting obligation queries
	fnSteps    map[*ssa.Function]int64
	intr       map[string]int
	nAnon      int
	nDet       int
	panicOK    bool
	hashes     map[string][]hashRec
	funcs      map[string][]hashRec
	decimals   map[*Term]sstr
	sigs       []sigRec
	mapReverse bool
	symMaps    map[uintptr]*[]symEntry
	symMapKeep []map[value]value
	bech       []bechRec
	coverSeq   []string
	violated   bool
	tainted    bool // a decision or assumption of this path depends on an uninterpreted value
	anonMemo   map[*Term]bool
}

type worker struct {
	id     int
	i      *interpreter
	solver *Solver
	ex     *explorer
}

type explorer struct {
	opt     Options
	res     *HarnessResult
	mu      sync.Mutex
	cond    *sync.Cond
	work    [][]int
	active  int
	started int
	stop    bool
}

func (ex *explorer) push(prefix []int) {
	ex.mu.Lock()
	ex.work = append(ex.work, prefix)
	ex.mu.Unlock()
	ex.cond.Signal()
}

func (ex *explorer) next() ([]int, bool) {
	ex.mu.Lock()
	defer ex.mu.Unlock()
	for {
		if ex.stop {
			return nil, false
		}
		if len(ex.work) > 0 {
			if ex.opt.MaxPaths > 0 && ex.started >= ex.opt.MaxPaths {
				ex.res.mu.Lock()
				ex.res.PathLimitHit = true
				ex.res.mu.Unlock()
				ex.stop = true
				ex.cond.Broadcast()
				return nil, false
			}
			if !ex.opt.Deadline.IsZero() && time.Now().After(ex.opt.Deadline) {
				ex.res.mu.Lock()
				ex.res.PathLimitHit = true
				ex.res.mu.Unlock()
				ex.stop = true
				ex.cond.Broadcast()
				return nil, false
			}
			// LIFO: depth-first keeps the worklist small
			p := ex.work[len(ex.work)-1]
			ex.work = ex.work[:len(ex.work)-1]
			ex.active++
			ex.started++
			return p, true
		}
		if ex.active == 0 {
			ex.cond.Broadcast()
			return nil, false
		}
		ex.cond.Wait()
	}
}

func (ex *explorer) done() {
	ex.mu.Lock()
	ex.active--
	if ex.active == 0 && len(ex.work) == 0 {
		ex.cond.Broadcast()
	}
	ex.mu.Unlock()
}

// ---------------------------------------------------------------------------------------------
// decisions

func (px *pathCtx) assertPC(t *Term) {
	if t.isTrue() {
		return
	}
	px.solver.Assert(t)
	px.pcTerms = append(px.pcTerms, t)
}

// decide picks one of the mutually exclusive alternatives conds[i]; alternatives that are
// feasible but not taken are queued as new work. Returns the chosen index.
func (px *pathCtx) decide(conds []*Term) int { return px.decideX(conds, false) }

// decideX: exhaustive says the alternatives cover every case, so if all but the last are
// infeasible the last one needs no query (the path condition itself is satisfiable).
func (px *pathCtx) decideX(conds []*Term, exhaustive bool) int {
	// concrete fast path
	nFeasibleStatic := 0
	last := -1
	for i, c := range conds {
		if !c.isFalse() {
			nFeasibleStatic++
			last = i
		}
	}
	if nFeasibleStatic == 0 {
		panic(pathAbort{"no alternative"})
	}
	if nFeasibleStatic == 1 && conds[last].isTrue() {
		return last
	}
	pos := len(px.decisions)
	if pos < len(px.prefix) {
		c := px.prefix[pos]
		px.decisions = append(px.decisions, c)
		px.symDecs++
		px.noteTaint(conds[c])
		px.assertPC(conds[c])
		return c
	}
	if px.w.ex.opt.MaxDecisions > 0 && pos >= px.w.ex.opt.MaxDecisions {
		panic(pathLimit{fmt.Sprintf("more than %d symbolic decisions on one path", px.w.ex.opt.MaxDecisions)})
	}
	chosen := -1
	var feas []int
	for i, c := range conds {
		if c.isFalse() {
			continue
		}
		// if all others were infeasible and this is the last candidate, it must be feasible
		// (the path condition itself is satisfiable) only when the alternatives are exhaustive;
		// we do not rely on that: query anyway unless it is the sole static candidate.
		var r SatResult
		if nFeasibleStatic == 1 {
			r = Sat
		} else if exhaustive && i == last && len(feas) == 0 {
			r = Sat
		} else {
			r = px.solver.CheckWith(c)
			px.w.ex.res.mu.Lock()
			px.w.ex.res.Feasibility++
			px.w.ex.res.mu.Unlock()
		}
		if r != Unsat {
			feas = append(feas, i)
		}
	}
	if len(feas) == 0 {
		panic(pathAbort{"all alternatives infeasible"})
	}
	chosen = feas[0]
	if forkProfOn && len(feas) > 1 {
		noteFork(px)
	}
	for _, alt := range feas[1:] {
		np := make([]int, pos+1)
		copy(np, px.decisions)
		np[pos] = alt
		px.w.ex.push(np)
	}
	px.decisions = append(px.decisions, chosen)
	px.symDecs++
	px.noteTaint(conds[chosen])
	px.assertPC(conds[chosen])
	return chosen
}

func (px *pathCtx) branch(c *Term) bool {
	return px.decideX([]*Term{c, mkNot(c)}, true) == 0
}

// concInt makes a symbolic integer concrete by forking over [lo,hi]; values outside raise the
// given target panic.
func (fr *frame) concInt(v value, lo, hi int64, what string) int64 {
	sv, ok := v.(symv)
	if !ok {
		return asInt64(v)
	}
	px := fr.i.px
	w, signed := kindWidth(sv.k)
	if hi-lo > 256 {
		panic(engineError{fmt.Sprintf("symbolic %s with range [%d,%d] too wide to case-split", what, lo, hi)})
	}
	var conds []*Term
	for x := lo; x <= hi; x++ {
		conds = append(conds, mkEq(sv.t, mkBVBig(w, bigFromInt64(x))))
	}
	// out of range
	var inRange *Term
	if signed {
		inRange = mkAnd(bvCmp("bvsge", sv.t, mkBVBig(w, bigFromInt64(lo))), bvCmp("bvsle", sv.t, mkBVBig(w, bigFromInt64(hi))))
	} else {
		if lo < 0 {
			lo = 0
		}
		inRange = mkAnd(bvCmp("bvuge", sv.t, mkBVBig(w, bigFromInt64(lo))), bvCmp("bvule", sv.t, mkBVBig(w, bigFromInt64(hi))))
	}
	conds = append(conds, mkNot(inRange))
	c := px.decide(conds)
	if c == len(conds)-1 {
		panic(targetPanic{iface{fr.i.runtimeErrorString, "runtime error: " + what + " out of range"}})
	}
	return lo + int64(c)
}

// ---------------------------------------------------------------------------------------------
// model extraction

func (px *pathCtx) model() map[string]string {
	return px.solver.Model(px.vars)
}

func (px *pathCtx) freshVar(name string, s Sort) *Term {
	if name == "" {
		px.nAnon++
		name = fmt.Sprintf("anon!%d", px.nAnon)
	}
	name = sanitize(name)
	if px.varNames[name] {
		// make unique (loops)
		for k := 2; ; k++ {
			n2 := fmt.Sprintf("%s#%d", name, k)
			if !px.varNames[n2] {
				name = n2
				break
			}
		}
	}
	px.varNames[name] = true
	v := mkVar("|"+name+"|", s)
	px.vars = append(px.vars, v)
	return v
}

func sanitize(s string) string {
	return strings.Map(func(r rune) rune {
		if r == '|' || r == '\\' || r < 32 || r > 126 {
			return '_'
		}
		return r
	}, s)
}

// ---------------------------------------------------------------------------------------------
// obligations

func (px *pathCtx) exportQuery(neg *Term) string {
	em := newEmitter()
	var sb strings.Builder
	sb.WriteString("(set-logic ALL)\n")
	var refs []string
	for _, t := range px.pcTerms {
		refs = append(refs, em.ref(t))
	}
	refs = append(refs, em.ref(neg))
	sb.WriteString(em.out.String())
	for _, r := range refs {
		sb.WriteString("(assert " + r + ")\n")
	}
	sb.WriteString("(check-sat)\n")
	return sb.String()
}

// obligation checks that cond holds on every extension of the current path.
func (px *pathCtx) obligation(cond value, label, kind, pos string) {
	res := px.w.ex.res
	res.mu.Lock()
	res.Obligations++
	res.mu.Unlock()
	var ct *Term
	switch c := cond.(type) {
	case bool:
		ct = b2t(c)
	case symv:
		ct = c.t
	default:
		panic(engineError{fmt.Sprintf("obligation on %T", cond)})
	}
	if ct.isTrue() {
		res.mu.Lock()
		res.Discharged++
		res.TrivialOblig++
		res.mu.Unlock()
		return
	}
	neg := mkNot(ct)
	// known findings registered on this path that apply to this label
	var knownDisj *Term = tFalse
	for _, k := range px.known {
		if !px.w.ex.opt.Known[k.id+"@"+label] && !px.w.ex.opt.Known[k.id] {
			continue
		}
		r := px.solver.CheckWith(mkAnd(neg, k.cond))
		res.mu.Lock()
		res.ObligQueries++
		res.mu.Unlock()
		if r == Sat {
			px.solver.Push()
			px.solver.Assert(mkAnd(neg, k.cond))
			px.solver.Check()
			m := px.model()
			px.solver.Pop()
			res.mu.Lock()
			res.KnownHits = append(res.KnownHits, KnownHit{ID: k.id, Harness: res.Name, Label: label, Model: m})
			res.mu.Unlock()
		} else if r == Unknown {
			res.mu.Lock()
			res.Inconclusive = append(res.Inconclusive, Inconclusive{Harness: res.Name, Why: "solver unknown on known-finding query " + k.id + " / " + label, Pos: pos})
			res.mu.Unlock()
		}
		knownDisj = mkOr(knownDisj, k.cond)
	}
	q := mkAnd(neg, mkNot(knownDisj))
	px.solver.Push()
	px.solver.Assert(q)
	r := px.solver.Check()
	if px.w.ex.opt.KeepSMT {
		res.mu.Lock()
		n := len(res.ObligSMT)
		res.mu.Unlock()
		if n < 3000 {
			txt := px.exportQuery(q)
			res.mu.Lock()
			res.ObligSMT = append(res.ObligSMT, ObligQuery{SMT: txt, Result: r.String(), Label: label})
			res.mu.Unlock()
		}
	}
	res.mu.Lock()
	res.ObligQueries++
	res.mu.Unlock()
	switch r {
	case Unsat:
		px.solver.Pop()
		res.mu.Lock()
		res.Discharged++
		res.mu.Unlock()
	case Sat:
		m := px.model()
		px.solver.Pop()
		res.mu.Lock()
		px.violated = true
		res.Violations = append(res.Violations, Violation{Harness: res.Name, Label: label, Kind: kind, Model: m,
			Decisions: append([]int(nil), px.decisions...), Pos: pos})
		res.mu.Unlock()
	default:
		px.solver.Pop()
		res.mu.Lock()
		res.Inconclusive = append(res.Inconclusive, Inconclusive{Harness: res.Name, Why: "solver unknown on obligation " + label, Pos: pos})
		res.mu.Unlock()
	}
	// continue under the assumption that the obligation holds (unless known-finding region)
	if !knownDisj.isFalse() {
		// keep exploring only the region where the assertion holds
	}
	if px.solver.CheckWith(ct) == Unsat {
		panic(pathAbort{"assertion cannot hold on this path"})
	}
	px.assertPC(ct)
}

func (px *pathCtx) cover(label string) {
	px.coverSeq = append(px.coverSeq, label)
	res := px.w.ex.res
	res.mu.Lock()
	res.CoverCount[label]++
	_, have := res.Covers[label]
	res.mu.Unlock()
	if have {
		return
	}
	// witness: a model of the current path condition
	if px.solver.Check() == Sat {
		m := px.model()
		res.mu.Lock()
		if _, have := res.Covers[label]; !have {
			res.Covers[label] = m
		}
		res.mu.Unlock()
	}
}

// targetPanicOutcome handles a target panic that escaped the harness.
func (px *pathCtx) targetPanicOutcome(msg, pos string) {
	res := px.w.ex.res
	if px.panicOK || px.w.ex.opt.PanicOK {
		res.mu.Lock()
		res.Panics[trunc(msg, 120)]++
		res.mu.Unlock()
		return
	}
	label := "panic: " + trunc(msg, 160)
	res.mu.Lock()
	res.Obligations++
	res.mu.Unlock()
	knownDisj := tFalse
	for _, k := range px.known {
		if !px.w.ex.opt.Known[k.id] {
			continue
		}
		r := px.solver.CheckWith(k.cond)
		if r == Sat {
			px.solver.Push()
			px.solver.Assert(k.cond)
			px.solver.Check()
			m := px.model()
			px.solver.Pop()
			res.mu.Lock()
			res.KnownHits = append(res.KnownHits, KnownHit{ID: k.id, Harness: res.Name, Label: label, Model: m})
			res.mu.Unlock()
		}
		knownDisj = mkOr(knownDisj, k.cond)
	}
	q := mkNot(knownDisj)
	px.solver.Push()
	px.solver.Assert(q)
	r := px.solver.Check()
	res.mu.Lock()
	res.ObligQueries++
	res.mu.Unlock()
	switch r {
	case Sat:
		m := px.model()
		res.mu.Lock()
		res.Violations = append(res.Violations, Violation{Harness: res.Name, Label: label, Kind: "panic", Model: m,
			Decisions: append([]int(nil), px.decisions...), Pos: pos, Detail: msg})
		res.mu.Unlock()
	case Unsat:
		res.mu.Lock()
		res.Discharged++
		res.mu.Unlock()
	default:
		res.mu.Lock()
		res.Inconclusive = append(res.Inconclusive, Inconclusive{Harness: res.Name, Why: "solver unknown on panic path " + label, Pos: pos})
		res.mu.Unlock()
	}
	px.solver.Pop()
}

func trunc(s string, n int) string {
	if len(s) > n {
		return s[:n]
	}
	return s
}

// ---------------------------------------------------------------------------------------------
// running one path

func (w *worker) runPath(fn *ssa.Function, prefix []int) {
	ex := w.ex
	res := ex.res
	px := &pathCtx{w: w, solver: w.solver, prefix: prefix, varNames: map[string]bool{},
		fnSteps: map[*ssa.Function]int64{}, intr: map[string]int{}}
	w.i.px = px
	w.solver.Push()
	completed := false
	func() {
		defer func() {
			r := recover()
			if r == nil {
				return
			}
			pos := w.i.lastPos()
			switch p := r.(type) {
			case pathAbort:
				res.mu.Lock()
				res.Aborted++
				if os.Getenv("GOSYMX_DEBUG") != "" && res.Aborted <= 20 {
					fmt.Fprintf(os.Stderr, "DEBUG abort: %s at %s decisions=%v\n", p.why, pos, px.decisions)
				}
				res.mu.Unlock()
			case pathLimit:
				res.mu.Lock()
				res.Inconclusive = append(res.Inconclusive, Inconclusive{Harness: res.Name, Why: "limit: " + p.why, Pos: pos})
				res.mu.Unlock()
			case engineError:
				res.mu.Lock()
				res.Inconclusive = append(res.Inconclusive, Inconclusive{Harness: res.Name, Why: "unsupported: " + p.msg, Pos: pos})
				res.mu.Unlock()
			case targetPanic:
				completed = true
				px.targetPanicOutcome(w.i.panicText(p.v), pos)
			case runtime.Error:
				if _, ok := p.(*runtime.TypeAssertionError); ok {
					res.mu.Lock()
					res.Inconclusive = append(res.Inconclusive, Inconclusive{Harness: res.Name, Why: "unsupported (engine type confusion): " + p.Error() + "\n" + stackSummary(), Pos: pos})
					res.mu.Unlock()
				} else {
					completed = true
					px.targetPanicOutcome(p.Error(), pos)
				}
			case string:
				res.mu.Lock()
				res.Inconclusive = append(res.Inconclusive, Inconclusive{Harness: res.Name, Why: "unsupported: " + p, Pos: pos})
				res.mu.Unlock()
			default:
				res.mu.Lock()
				res.Inconclusive = append(res.Inconclusive, Inconclusive{Harness: res.Name, Why: fmt.Sprintf("unsupported: panic %T %v", r, r), Pos: pos})
				res.mu.Unlock()
			}
		}()
		call(w.i, nil, token.NoPos, fn, nil)
		completed = true
		px.keepWitness()
		if !px.panicOK && !ex.opt.PanicOK {
			// implicit obligation of every path: no panic escaped the harness
			res.mu.Lock()
			res.Obligations++
			res.Discharged++
			res.ImplicitNoPanic++
			res.mu.Unlock()
		}
	}()
	w.solver.Pop()
	res.mu.Lock()
	if completed {
		res.Paths++
		if px.symDecs > 0 || len(px.vars) > 0 {
			res.SymbolicPaths++
		}
	}
	res.Steps += px.steps
	if len(px.decisions) > res.MaxDecisions {
		res.MaxDecisions = len(px.decisions)
	}
	for f, n := range px.fnSteps {
		res.Funcs[f.String()] += n
	}
	for k, n := range px.intr {
		res.Intrinsics[k] += n
	}
	res.mu.Unlock()
	w.i.px = nil
}

func stackSummary() string {
	buf := make([]byte, 1<<14)
	n := runtime.Stack(buf, false)
	lines := strings.Split(string(buf[:n]), "\n")
	var keep []string
	for _, l := range lines {
		if strings.Contains(l, "interp/") && strings.Contains(l, ".go:") {
			keep = append(keep, strings.TrimSpace(l))
			if len(keep) >= 6 {
				break
			}
		}
	}
	return strings.Join(keep, " <- ")
}

func (i *interpreter) lastPos() string {
	if i.curInstr == nil {
		return ""
	}
	p := i.prog.Fset.Position(i.curInstr.Pos())
	fn := ""
	if i.curInstr.Parent() != nil {
		fn = i.curInstr.Parent().String()
	}
	return fmt.Sprintf("%s (%s)", p.String(), fn)
}

func (i *interpreter) panicText(v value) string {
	switch x := v.(type) {
	case iface:
		if x.t == nil {
			return "nil"
		}
		if s, ok := x.v.(string); ok {
			return s
		}
		if ee, ok := x.v.(*engErr); ok {
			if s, ok := ee.msg.(string); ok {
				return s
			}
			return "<error with symbolic text>"
		}
		// error values: try to render
		if s, ok := i.errorText(x); ok {
			return s
		}
		return fmt.Sprintf("(%s) %s", x.t, toString(x.v))
	}
	return toString(v)
}

// ---------------------------------------------------------------------------------------------
// Program / session API used by cmd/gosymx

type Session struct {
	Prog      *ssa.Program
	Pkgs      []*ssa.Package
	InitPkg   []*ssa.Package // packages whose init is executed
	Sizes     types.Sizes
	Consts    map[string]string // precomputed constants
	PkgDirs   map[string]string // package path -> directory
	errVars   map[string]map[string]string
	getters   map[string]map[string]string
	InitStubs map[string]int // body-less functions called (and stubbed with zero results) during package init
}

func (s *Session) newInterpreter() *interpreter {
	i := &interpreter{
		prog:       s.Prog,
		globals:    make(map[*ssa.Global]*value),
		sizes:      s.Sizes,
		goroutines: 1,
		sess:       s,
	}
	runtimePkg := i.prog.ImportedPackage("runtime")
	if runtimePkg == nil {
		panic("ssa.Program doesn't include runtime package")
	}
	i.runtimeErrorString = runtimePkg.Type("errorString").Object().Type()
	rtErrType = i.runtimeErrorString
	initReflect(i)
	for _, pkg := range i.prog.AllPackages() {
		for _, m := range pkg.Members {
			if v, ok := m.(*ssa.Global); ok {
				cell := zero(mustDeref(v.Type()))
				i.globals[v] = &cell
			}
		}
	}
	return i
}

// runInits executes package initialisers (lenient about body-less callees).
func (i *interpreter) runInits(pkgs []*ssa.Package) (err error) {
	i.initPhase = true
	defer func() {
		i.initPhase = false
		if r := recover(); r != nil {
			err = fmt.Errorf("package init failed at %s: %v", i.lastPos(), r)
		}
	}()
	for _, p := range pkgs {
		if f := p.Func("init"); f != nil {
			call(i, nil, token.NoPos, f, nil)
		}
	}
	return nil
}

// Explore runs harness function fn to exhaustion (within limits).
func (s *Session) Explore(fn *ssa.Function, opt Options) (*HarnessResult, error) {
	res := newHarnessResult(fn.Name())
	ex := &explorer{opt: opt, res: res}
	ex.cond = sync.NewCond(&ex.mu)
	ex.work = [][]int{nil}
	start := time.Now()
	var wg sync.WaitGroup
	errs := make(chan error, opt.Workers)
	workers := make([]*worker, opt.Workers)
	for k := 0; k < opt.Workers; k++ {
		wg.Add(1)
		go func(k int) {
			defer wg.Done()
			logp := ""
			if opt.LogDir != "" {
				logp = fmt.Sprintf("%s/%s.w%d.smt2", opt.LogDir, fn.Name(), k)
			}
			sol, err := NewSolver(opt.SolverName, opt.TimeoutMs, logp)
			if err != nil {
				errs <- err
				return
			}
			defer sol.Close()
			i := s.newInterpreter()
			if opt.Trace {
				i.mode |= EnableTracing
			}
			if err := i.runInits(s.InitPkg); err != nil {
				errs <- err
				ex.mu.Lock()
				ex.stop = true
				ex.mu.Unlock()
				ex.cond.Broadcast()
				return
			}
			w := &worker{id: k, i: i, solver: sol, ex: ex}
			workers[k] = w
			for {
				p, ok := ex.next()
				if !ok {
					break
				}
				w.runPath(fn, p)
				ex.done()
			}
			res.mu.Lock()
			res.SolverTime += sol.Time
			res.SolverErrors += sol.Errors
			res.mu.Unlock()
		}(k)
	}
	wg.Wait()
	res.Wall = time.Since(start)
	select {
	case err := <-errs:
		return res, err
	default:
	}
	return res, nil
}

func (r *HarnessResult) SortedFuncs() []string {
	var names []string
	for k := range r.Funcs {
		names = append(names, k)
	}
	sort.Strings(names)
	return names
}

func bigFromInt64(x int64) *big.Int { return big.NewInt(x) }

// fork-site profile (GOSYMX_FORKS=1): where paths split, to find the location that explodes
var (
	forkProfOn = os.Getenv("GOSYMX_FORKS") != ""
	forkProfMu sync.Mutex
	forkProf   = map[string]int{}
)

func noteFork(px *pathCtx) {
	in := px.w.i.curInstr
	key := "?"
	if in != nil {
		fn := ""
		if in.Parent() != nil {
			fn = in.Parent().String()
		}
		key = fn + " @ " + px.w.i.prog.Fset.Position(in.Pos()).String()
	}
	forkProfMu.Lock()
	forkProf[key]++
	forkProfMu.Unlock()
}

// DumpForkProfile prints the most frequent fork sites.
func DumpForkProfile() {
	if !forkProfOn {
		return
	}
	type kv struct {
		k string
		n int
	}
	var l []kv
	forkProfMu.Lock()
	for k, n := range forkProf {
		l = append(l, kv{k, n})
	}
	forkProf = map[string]int{}
	forkProfMu.Unlock()
	sort.Slice(l, func(i, j int) bool { return l[i].n > l[j].n })
	for i, e := range l {
		if i >= 25 {
			break
		}
		fmt.Fprintf(os.Stderr, "FORKS %8d %s\n", e.n, e.k)
	}
}

// keepWitness samples passing paths whose inputs are all named harness inputs (no value came
// from an uninterpreted function or an unconstrained stub, which a native run would compute
// differently): their model is replayed natively and must show the same cover points, no failed
// assertion and no panic. Sampling: the first paths seen and then every 2^k-th.
func (px *pathCtx) keepWitness() {
	ex := px.w.ex
	if ex.opt.Witnesses <= 0 || px.violated || px.tainted || len(px.vars) == 0 {
		return
	}
	res := ex.res
	res.mu.Lock()
	res.witnessSeen++
	n := res.witnessSeen
	take := len(res.Witnesses) < ex.opt.Witnesses && (n <= ex.opt.Witnesses/2 || n&(n-1) == 0)
	res.mu.Unlock()
	if !take || px.solver.Check() != Sat {
		return
	}
	m := px.model()
	res.mu.Lock()
	if len(res.Witnesses) < ex.opt.Witnesses {
		res.Witnesses = append(res.Witnesses, Witness{Model: m, Covers: append([]string(nil), px.coverSeq...)})
	}
	res.mu.Unlock()
}

// noteTaint marks the path when a decision or assumption mentions a value that the engine leaves
// uninterpreted (hash outputs, signature bytes, EIP-55 case bits, bech32 text of symbolic bytes):
// a native run computes such values, so the path is not a conformance witness.
func (px *pathCtx) noteTaint(t *Term) {
	if px.tainted || px.w.ex.opt.Witnesses <= 0 {
		return
	}
	if px.anonMemo == nil {
		px.anonMemo = map[*Term]bool{}
	}
	if px.hasAnon(t) {
		px.tainted = true
	}
}

func (px *pathCtx) hasAnon(t *Term) bool {
	if t == nil {
		return false
	}
	if v, ok := px.anonMemo[t]; ok {
		return v
	}
	r := false
	if t.op == "var" {
		r = strings.HasPrefix(t.name, "|anon!")
	} else {
		for _, a := range t.args {
			if px.hasAnon(a) {
				r = true
				break
			}
		}
	}
	px.anonMemo[t] = r
	return r
}

// freshDet is a fresh variable whose value is fully determined by constraints over other values
// (e.g. the decimal digits of a number): harmless for conformance witnesses.
func (px *pathCtx) freshDet(s Sort) *Term {
	px.nDet++
	return px.freshVar(fmt.Sprintf("det!%d", px.nDet), s)
}
