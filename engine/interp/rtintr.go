package interp

// Intrinsics for the harness runtime package (zzverif/rt) and misc engine services.

import (
	"fmt"
	"go/token"
	"go/types"
	"sync"
)

const rtPath = "github.com/functionx/fx-core/v8/zzverif/rt"

var rtErrType types.Type

var currentTier = "quick"

// SetTier selects the bound set used by rt.Bound.
func SetTier(t string) { currentTier = t }

var initStubMu sync.Mutex

func (s *Session) noteInitStub(name string) {
	initStubMu.Lock()
	defer initStubMu.Unlock()
	if s.InitStubs == nil {
		s.InitStubs = map[string]int{}
	}
	s.InitStubs[name]++
}

func argStr(v value) string {
	s, ok := v.(string)
	if !ok {
		panic(engineError{"rt: name/label argument must be a concrete string"})
	}
	return s
}

func (fr *frame) px() *pathCtx {
	if fr.i.px == nil {
		panic(engineError{"rt call outside exploration"})
	}
	return fr.i.px
}

func (fr *frame) posText() string {
	// position of the caller of the rt function
	if fr.caller != nil && fr.i.curInstr != nil {
		return fr.i.prog.Fset.Position(fr.i.curInstr.Pos()).String()
	}
	return ""
}

func rtScalar(k types.BasicKind) externalFn {
	return func(fr *frame, args []value) value {
		px := fr.px()
		if k == types.Bool {
			return symv{t: px.freshVar(argStr(args[0]), boolSort), k: types.Bool}
		}
		w, _ := kindWidth(k)
		return symv{t: px.freshVar(argStr(args[0]), bvSort(w)), k: k}
	}
}

func init() {
	reg := func(name string, f externalFn) { externals[rtPath+"."+name] = f }
	reg("U64", rtScalar(types.Uint64))
	reg("I64", rtScalar(types.Int64))
	reg("Int", rtScalar(types.Int))
	reg("U32", rtScalar(types.Uint32))
	reg("I32", rtScalar(types.Int32))
	reg("U8", rtScalar(types.Uint8))
	reg("Bool", rtScalar(types.Bool))
	reg("Bytes", func(fr *frame, args []value) value {
		px := fr.px()
		name := argStr(args[0])
		n := int(asInt64(args[1]))
		out := make([]value, n)
		for j := range out {
			out[j] = symv{t: px.freshVar(fmt.Sprintf("%s[%d]", name, j), bvSort(8)), k: types.Uint8}
		}
		return out
	})
	reg("Str", func(fr *frame, args []value) value {
		px := fr.px()
		name := argStr(args[0])
		n := int(asInt64(args[1]))
		if n == 0 {
			return ""
		}
		out := make(sstr, n)
		for j := range out {
			out[j] = symv{t: px.freshVar(fmt.Sprintf("%s[%d]", name, j), bvSort(8)), k: types.Uint8}
		}
		return out
	})
	reg("BigInt", func(fr *frame, args []value) value {
		px := fr.px()
		t := px.freshVar(argStr(args[0]), intSort)
		return newBigPtr(t)
	})
	reg("Choose", func(fr *frame, args []value) value {
		px := fr.px()
		n := asInt64(args[1])
		if n <= 0 {
			panic(engineError{"rt.Choose: n must be positive"})
		}
		if n == 1 {
			return int(0)
		}
		v := symv{t: px.freshVar(argStr(args[0]), bvSort(64)), k: types.Int}
		return int(fr.concIntNoPanic(v, 0, n-1))
	})
	reg("Assume", func(fr *frame, args []value) value {
		px := fr.px()
		switch c := args[0].(type) {
		case bool:
			if !c {
				panic(pathAbort{"assume false"})
			}
		case symv:
			if px.solver.CheckWith(c.t) == Unsat {
				panic(pathAbort{"assumption infeasible"})
			}
			px.noteTaint(c.t)
			px.assertPC(c.t)
		}
		return nil
	})
	reg("Assert", func(fr *frame, args []value) value {
		px := fr.px()
		px.obligation(args[0], argStr(args[1]), "assert", fr.posText())
		return nil
	})
	reg("Cover", func(fr *frame, args []value) value {
		fr.px().cover(argStr(args[0]))
		return nil
	})
	reg("Known", func(fr *frame, args []value) value {
		px := fr.px()
		id := argStr(args[0])
		px.known = append(px.known, knownReg{id: id, cond: termOf(args[1])})
		return nil
	})
	reg("PanicOK", func(fr *frame, args []value) value {
		fr.px().panicOK = true
		return nil
	})
	reg("PanicNotOK", func(fr *frame, args []value) value {
		fr.px().panicOK = false
		return nil
	})
	reg("Tier", func(fr *frame, args []value) value { return currentTier })
	reg("Bound", func(fr *frame, args []value) value {
		if currentTier == "thorough" {
			return args[2]
		}
		return args[1]
	})
	reg("And", func(fr *frame, args []value) value {
		var r value = true
		for _, c := range args[0].([]value) {
			r = vAnd(r, c)
		}
		return r
	})
	reg("Or", func(fr *frame, args []value) value {
		var r value = false
		for _, c := range args[0].([]value) {
			r = vOr(r, c)
		}
		return r
	})
	reg("Not", func(fr *frame, args []value) value { return vNot(args[0]) })
	reg("Implies", func(fr *frame, args []value) value { return vOr(vNot(args[0]), args[1]) })
	reg("CharsIn", func(fr *frame, args []value) value {
		set := argStr(args[1])
		var present [256]bool
		for i := 0; i < len(set); i++ {
			present[set[i]] = true
		}
		acc := tTrue
		for _, e := range strElems(args[0]) {
			switch c := e.(type) {
			case uint8:
				if !present[c] {
					return false
				}
			case symv:
				d := tFalse
				for lo := 0; lo < 256; lo++ {
					if !present[lo] {
						continue
					}
					hi := lo
					for hi+1 < 256 && present[hi+1] {
						hi++
					}
					if lo == hi {
						d = mkOr(d, mkEq(c.t, mkBV(8, uint64(lo))))
					} else {
						d = mkOr(d, mkAnd(bvCmp("bvuge", c.t, mkBV(8, uint64(lo))), bvCmp("bvule", c.t, mkBV(8, uint64(hi)))))
					}
					lo = hi
				}
				acc = mkAnd(acc, d)
			}
		}
		return mkVal(acc, types.Bool)
	})
	reg("BytesEq", func(fr *frame, args []value) value { return elemsEq(args[0].([]value), args[1].([]value)) })
	reg("StrEq", func(fr *frame, args []value) value { return strEq(args[0], args[1]) })
	reg("SetMapOrder", func(fr *frame, args []value) value {
		fr.px().mapReverse = args[0].(bool)
		fr.px().w.ex.noteAssumption("map iteration order: each compared run uses ascending resp. descending key order (two of the n! orders)")
		return nil
	})
	reg("Repeats", func(fr *frame, args []value) value { return int(2) })
	reg("Symbolic", func(fr *frame, args []value) value { return true })
	reg("Note", func(fr *frame, args []value) value {
		res := fr.px().w.ex.res
		res.mu.Lock()
		res.Assumptions[argStr(args[0])] = true
		res.mu.Unlock()
		return nil
	})
	reg("IsConcrete", func(fr *frame, args []value) value {
		return !hasSym(args[0].(iface).v)
	})
}

// concIntNoPanic forks over [lo,hi] and asserts the value lies inside.
func (fr *frame) concIntNoPanic(v symv, lo, hi int64) int64 {
	px := fr.i.px
	w, _ := kindWidth(v.k)
	var conds []*Term
	for x := lo; x <= hi; x++ {
		conds = append(conds, mkEq(v.t, mkBVBig(w, bigFromInt64(x))))
	}
	return lo + int64(px.decide(conds))
}

// errorText renders an error/Stringer value by calling its method in the interpreter.
func (i *interpreter) errorText(x iface) (res string, ok bool) {
	defer func() {
		if r := recover(); r != nil {
			res, ok = "", false
		}
	}()
	for _, m := range []string{"Error", "String"} {
		ms := i.prog.MethodSets.MethodSet(x.t)
		sel := ms.Lookup(nil, m)
		if sel == nil {
			continue
		}
		fn := i.prog.MethodValue(sel)
		if fn == nil {
			continue
		}
		r := call(i, nil, token.NoPos, fn, []value{x.v})
		if s, ok := r.(string); ok {
			return s, true
		}
		if s, ok := r.(sstr); ok {
			return fmt.Sprintf("<symbolic string of %d bytes>", len(s)), true
		}
	}
	return "", false
}
