#!/bin/bash
# usage: runsome.sh <tier> <id>...   -- runs the given checks one after the other
cd "$(dirname "$0")/.."
tier="$1"; shift
mkdir -p work
for id in "$@"; do
  s=$(date +%s)
  timeout 5400 bin/check $id $tier > work/run_${tier}_$id.log 2>&1; rc=$?
  e=$(date +%s)
  echo "$id exit=$rc $((e-s))s $(tail -1 work/run_${tier}_$id.log | cut -c1-150)"
done
