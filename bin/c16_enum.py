#!/usr/bin/env python3
"""Enumerate, from /repo's current generated sources, every Msg type that carries an Authority
field, and compare with the handlers the C16 harnesses cover. A new privileged message makes the
check fail closed (exit 1 -> INCONCLUSIVE) until a harness is added."""
import re, glob, sys
covered = {
 "x/crosschain/types/tx.pb.go": {"MsgUpdateParams", "MsgUpdateChainOracles"},
 "x/erc20/types/tx.pb.go": {"MsgUpdateParams", "MsgRegisterCoin", "MsgRegisterERC20", "MsgToggleTokenConversion", "MsgUpdateDenomAlias"},
 "x/gov/types/tx.pb.go": {"MsgUpdateStore", "MsgUpdateSwitchParams", "MsgUpdateCustomParams"},
 "x/evm/types/tx.pb.go": {"MsgCallContract"},
}
# reviewed but not encodable (stated as outside the claim)
outside = {}
found = {}
for f in sorted(glob.glob('/repo/x/*/types/*.pb.go') + glob.glob('/repo/x/*/*/types/*.pb.go')):
    s = open(f).read()
    rel = f[len('/repo/'):]
    for m in re.finditer(r'type (Msg\w+) struct \{(.*?)\n\}', s, re.S):
        if re.search(r'\bAuthority\s+string', m.group(2)):
            found.setdefault(rel, set()).add(m.group(1))
ok = True
for f, names in found.items():
    for n in names:
        if n not in covered.get(f, set()) and n not in outside.get(f, set()):
            print("privileged message without C16 harness:", f, n)
            ok = False
for f, names in covered.items():
    for n in names:
        if n not in found.get(f, set()):
            print("covered message no longer present:", f, n)
            ok = False
sys.exit(0 if ok else 1)
