#!/bin/bash
# re-runs every stored seeded change against the quick check of its property: each must be caught (exit 1)
cd "$(dirname "$0")/.."
mkdir -p work
fail=0
for d in seeded/*/; do
  s=$(basename $d); id=${s%%-*}
  [ -f $d/patch.diff ] || continue
  [ -z "$(git -C /repo status --porcelain)" ] || { echo "/repo not clean"; exit 2; }
  git -C /repo apply "$PWD/$d/patch.diff" || { echo "$s: patch does not apply"; fail=1; continue; }
  timeout 3000 bin/gosymx -prop $id -tier quick -noevidence > work/seedall_$s.log 2>&1; rc=$?
  git -C /repo checkout -- .
  echo "$s rc=$rc $(grep -c '^VIOLATION' work/seedall_$s.log) violations"
  [ $rc -eq 1 ] || fail=1
done
exit $fail
