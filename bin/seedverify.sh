#!/bin/bash
# usage: seedverify.sh <worktree> <pkg> <run-regex>   -- confirms demo fails with the patch and passes without
export GOFLAGS=-mod=mod GOPROXY=off GOSUMDB=off GOTOOLCHAIN=local
cd "$1" || exit 2
git checkout -q -- . 2>/dev/null
git apply seed_patch.diff || { echo "cannot apply patch"; exit 2; }
timeout 1500 go test -vet=off -count=1 "$2" -run "$3" > /tmp/seed_with.log 2>&1; w=$?
git apply -R seed_patch.diff
timeout 1500 go test -vet=off -count=1 "$2" -run "$3" > /tmp/seed_without.log 2>&1; wo=$?
git apply seed_patch.diff
echo "with-change exit=$w (want !=0), without-change exit=$wo (want 0)"
tail -3 /tmp/seed_with.log; tail -2 /tmp/seed_without.log
