#!/bin/bash
# runs every claimed check (tier $1, default quick) and validates the evidence files
cd "$(dirname "$0")/.."
tier="${1:-quick}"
mkdir -p work
ids=$(python3 -c "import json;print(' '.join(c['property_id'] for c in json.load(open('MANIFEST.json'))['checks']))")
for id in $ids; do
  s=$(date +%s)
  timeout 3600 bin/check $id $tier > work/run_$id.log 2>&1; rc=$?
  e=$(date +%s)
  echo "$id exit=$rc $((e-s))s $(tail -1 work/run_$id.log | cut -c1-150)"
done
python3-vt - <<'PY'
import json,jsonschema,glob
sch=json.load(open('/root/.vp/EVIDENCE.schema.json'))
for f in sorted(glob.glob('evidence/*.json')):
    try:
        jsonschema.validate(json.load(open(f)), sch); print(f,'valid')
    except Exception as ex:
        print(f,'INVALID',str(ex)[:200])
PY
