#!/usr/bin/env python3
"""Regenerate MANIFEST.json from harness/registry.json and harness/manifest_meta.json."""
import json, os
root = os.path.dirname(os.path.dirname(os.path.abspath(__file__)))
reg = json.load(open(os.path.join(root, "harness", "registry.json")))
meta = json.load(open(os.path.join(root, "harness", "manifest_meta.json")))
props = [json.loads(l) for l in open(os.path.join(root, "properties.jsonl"))]
checks, na = [], []
for p in props:
    pid = p["id"]
    if pid in reg["props"] and pid not in meta.get("not_applicable", {}):
        ps = reg["props"][pid]
        m = meta["claimed"].get(pid, {})
        checks.append({
            "property_id": pid,
            "quick_cmd": f"bin/check {pid} quick",
            "thorough_cmd": f"bin/check {pid} thorough",
            "evidence_file": f"/verif/evidence/{pid}.json",
            "replay_cmd_template": "bin/check --replay {path}",
            "engine": "gosymx",
            "level_claimed": {
                "category": "other",
                "text": m.get("text", "Bounded symbolic checking of the real code: " + "; ".join(ps.get("bounds", []))),
                "design_ref": m.get("design_ref", "DESIGN.md §3 " + pid),
            },
            "level_note": m.get("note", "Trusted: the engine (gosymx), its intrinsics and Go-level environment models listed in the evidence file; the SMT solvers. Outside the claim: " + "; ".join(ps.get("outside", []))),
            "technique": "solver-based bounded symbolic execution of the Go SSA of /repo (SMT: z3 5.1, cross-checked with z3 4.8.12 / cvc5)",
        })
    else:
        na.append({"property_id": pid, "reason": meta.get("not_applicable", {}).get(pid, "no check built yet in this session (planned, see DESIGN.md §3)")})
man = {
    "version": 1,
    "setup_cmd": "bin/setup",
    "hooks": {
        "guard": "verif",
        "enable": "no source hooks: harnesses, models and the rt shim are injected with go/packages overlays (engine) and `go test -overlay` (replay); nothing is written into /repo",
        "baseline_off_cmd": json.load(open("/root/.vp/BASELINE.json"))["cmd"],
        "source_commits": [],
        "add_only": True,
    },
    "engines": [{"name": "gosymx", "path": "/verif/engine", "serves_properties": [c["property_id"] for c in checks],
                 "kind_free_text": "symbolic executor for Go SSA (fork of x/tools go/ssa/interp) emitting SMT-LIB2 to z3/cvc5; regenerates the encoding from /repo on every run"}],
    "checks": checks,
    "not_applicable": na,
    "notes": "Exit codes: 0 all obligations discharged; 1 reproduced counterexample (VIOLATION line); 3 undecided (INCONCLUSIVE/VACUOUS/SPURIOUS/ENGINE-ERROR) - never reported as a pass.",
}
json.dump(man, open(os.path.join(root, "MANIFEST.json"), "w"), indent=1)
print("claimed:", [c["property_id"] for c in checks])
