#!/bin/bash
# usage: seedtry.sh <patch.diff> <property-id> [tier]  -- applies a seeded change to /repo, runs the check, undoes it
cd "$(dirname "$0")/.."
patch="$1"; id="$2"; tier="${3:-quick}"
[ -z "$(git -C /repo status --porcelain)" ] || { echo "/repo not clean"; exit 2; }
git -C /repo apply "$patch" || exit 2
timeout 3000 bin/gosymx -prop "$id" -tier "$tier" -noevidence > work/seedtry_$id.log 2>&1; rc=$?
git -C /repo checkout -- .
echo "seedtry $id rc=$rc"
grep -v "VACUOUS-\|^harness\|^loaded" work/seedtry_$id.log | cut -c1-400 | tail -6
