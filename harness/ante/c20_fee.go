package ante

import (
	sdk "github.com/cosmos/cosmos-sdk/types"
	banktypes "github.com/cosmos/cosmos-sdk/x/bank/types"
	distrtypes "github.com/cosmos/cosmos-sdk/x/distribution/types"
	stakingtypes "github.com/cosmos/cosmos-sdk/x/staking/types"

	"github.com/functionx/fx-core/v8/zzverif/rt"
)

func verifMsgOfKind(k int) sdk.Msg {
	switch k {
	case 0:
		return &banktypes.MsgSend{}
	case 1:
		return &distrtypes.MsgWithdrawDelegatorReward{}
	default:
		return &stakingtypes.MsgDelegate{}
	}
}

// VerifC20BypassMinFee: isByPassMinFee(msgs, gas) is true only if the list is non-empty, every
// message type is in the exempt set and gas <= len(msgs)*allowance as a mathematical product
// (no uint64 wrap can widen the allowance); and whenever that holds without wrap it is true.
func VerifC20BypassMinFee() {
	maxMsgs := rt.Bound("maxMsgs", 3, 4)
	n := rt.Choose("n", maxMsgs+1)
	var exemptList []string
	exempt := [3]bool{}
	for k := 0; k < 3; k++ {
		if rt.Choose("exempt", 2) == 1 {
			exempt[k] = true
			exemptList = append(exemptList, sdk.MsgTypeURL(verifMsgOfKind(k)))
		}
	}
	allowance := rt.U64("allowance")
	gas := rt.U64("gas")
	ctf := NewCheckTxFeees(exemptList, allowance)
	msgs := make([]sdk.Msg, 0, n)
	allExempt := true
	for i := 0; i < n; i++ {
		k := rt.Choose("kind", 3)
		msgs = append(msgs, verifMsgOfKind(k))
		if !exempt[k] {
			allExempt = false
		}
	}
	rt.Cover("entered")
	got := ctf.isByPassMinFee(msgs, gas)

	// reference: gas <= n*allowance over the integers, computed by repeated addition with carry
	// detection (no multiplication or division, so the reference shares nothing with the code)
	within := false
	noWrap := true
	if n > 0 {
		sum := uint64(0)
		for i := 0; i < n; i++ {
			next := sum + allowance
			if next < sum {
				noWrap = false // the true product exceeds 2^64-1 >= gas
			}
			sum = next
		}
		within = !noWrap || sum >= gas
	}
	spec := n > 0 && allExempt && within
	if got {
		rt.Cover("bypassed")
		rt.Assert(spec, "bypass-only-if-all-exempt-and-gas-within-allowance")
	} else {
		rt.Cover("not-bypassed")
		if noWrap {
			rt.Assert(!spec, "bypass-granted-when-rule-satisfied-without-wrap")
		}
	}
}
