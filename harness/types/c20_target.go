package types

import (
	"github.com/functionx/fx-core/v8/zzverif/rt"
)

func verifPrintableSet() string {
	b := make([]byte, 0, 95)
	for c := byte(0x20); c <= 0x7e; c++ {
		b = append(b, c)
	}
	return string(b)
}

// VerifC20ParseTarget: ParseFxTarget on an arbitrary printable string of every length up to the
// bound (plain or hex-encoded) returns a target without panicking, and so do the accessors used on
// the result; a target classified as IBC satisfies IBCValidate and renders back to a string that
// parses to the same channel and prefix.
func VerifC20ParseTarget() {
	n := rt.Choose("length", rt.Bound("targetTextLen", 10, 14)+1)
	s := rt.Str("target", n)
	rt.Assume(rt.CharsIn(s, verifPrintableSet()))
	t := ParseFxTarget(s)
	rt.Cover("parsed")
	_ = t.GetTarget()
	text := t.String()
	if t.IsIBC() {
		rt.Cover("ibc")
		rt.Assert(t.IBCValidate(), "a target classified as IBC passes IBC validation")
		back := ParseFxTarget(text)
		rt.Assert(back.IsIBC(), "the rendered IBC target parses as IBC again")
		rt.Assert(rt.And(rt.StrEq(back.SourceChannel, t.SourceChannel), rt.StrEq(back.Prefix, t.Prefix), back.SourcePort == t.SourcePort), "rendering and parsing an IBC target keeps channel, port and prefix")
	} else {
		rt.Cover("not-ibc")
	}
}

// VerifC20ParseTargetShaped: the same obligations on targets that follow one of the accepted
// layouts with arbitrary short printable fragments in the variable places (so the long forms,
// which the free-form bound does not reach, are covered).
func VerifC20ParseTargetShaped() {
	k := rt.Bound("fragmentLen", 2, 4)
	frag := func(name string) string {
		s := rt.Str(name, rt.Choose(name+".len", k+1))
		rt.Assume(rt.CharsIn(s, verifPrintableSet()))
		return s
	}
	var s string
	switch rt.Choose("layout", 5) {
	case 0:
		s = "ibc/" + frag("a") + "/" + frag("b")
	case 1:
		s = "ibc/" + frag("a") + "/transfer/channel-" + frag("b")
	case 2:
		s = frag("a") + "/transfer/channel-" + frag("b")
	case 3:
		s = "chain/" + frag("a")
	default:
		s = frag("a") + "/" + frag("b") + "/" + frag("c")
	}
	t := ParseFxTarget(s)
	rt.Cover("parsed")
	_ = t.GetTarget()
	text := t.String()
	if t.IsIBC() {
		rt.Cover("ibc")
		rt.Assert(t.IBCValidate(), "a target classified as IBC passes IBC validation")
		back := ParseFxTarget(text)
		rt.Assert(back.IsIBC(), "the rendered IBC target parses as IBC again")
		rt.Assert(rt.And(rt.StrEq(back.SourceChannel, t.SourceChannel), rt.StrEq(back.Prefix, t.Prefix), back.SourcePort == t.SourcePort), "rendering and parsing an IBC target keeps channel, port and prefix")
	} else {
		rt.Cover("not-ibc")
	}
}

// VerifC20Byte32: a cross-chain target arrives from contract call data as an arbitrary bytes32;
// decoding it to a string never panics (all 32 bytes may be non-zero, zeros may be embedded) and
// loses nothing: re-encoding the string gives the same 32 bytes.
func VerifC20Byte32() {
	var b [32]byte
	copy(b[:], rt.Bytes("target", 32))
	s := Byte32ToString(b)
	rt.Cover("decoded")
	back, err := StrToByte32(s)
	rt.Assert(err == nil, "a decoded bytes32 target can be encoded again")
	rt.Assert(rt.BytesEq(back[:], b[:]), "decoding a bytes32 target to a string loses nothing")
	long := rt.Str("text", 33)
	_, err = StrToByte32(long)
	rt.Assert(err != nil, "a text longer than 32 bytes is refused, not truncated")
}
