package keeper

import (
	"math/big"

	sdkmath "cosmossdk.io/math"
	sdk "github.com/cosmos/cosmos-sdk/types"
	transfertypes "github.com/cosmos/ibc-go/v8/modules/apps/transfer/types"
	channeltypes "github.com/cosmos/ibc-go/v8/modules/core/04-channel/types"
	"github.com/ethereum/go-ethereum/common"

	fxtypes "github.com/functionx/fx-core/v8/types"
	crosschainkeeper "github.com/functionx/fx-core/v8/x/crosschain/keeper"
	erc20keeper "github.com/functionx/fx-core/v8/x/erc20/keeper"
	erc20types "github.com/functionx/fx-core/v8/x/erc20/types"
	ibcmiddlewaretypes "github.com/functionx/fx-core/v8/x/ibc/middleware/types"
	"github.com/functionx/fx-core/v8/zzverif/models"
	"github.com/functionx/fx-core/v8/zzverif/rt"
)

const verifAuthority = "fx10d07y265gmmuvt4z0w9aw880jnsr700jqjzsmz"

var (
	verifContract = common.HexToAddress("0x00000000000000000000000000000000000000c1")
	verifUserA    = sdk.AccAddress([]byte{0xa1, 1, 1, 1, 1, 1, 1, 1, 1, 1, 1, 1, 1, 1, 1, 1, 1, 1, 1, 1})
)

func verifAmount(name string, bits uint) sdkmath.Int {
	b := rt.BigInt(name)
	rt.Assume(rt.And(b.Sign() >= 0, b.Cmp(new(big.Int).Lsh(big.NewInt(1), bits)) < 0))
	return sdkmath.NewIntFromBigInt(b)
}

// VerifC19MiddlewareSettles: two IBC transfers started from the EVM are in flight (A and B, on
// any of two local channels, symbolic sequences); A's packet - whose counterparty channel id may
// be any of the ids, including B's local one - is settled through the real middleware callbacks
// (success acknowledgement, error acknowledgement or timeout) wired to the real crosschain and
// erc20 keepers. Afterwards A's tracking record is gone, B's is untouched; on error / timeout the
// sender got exactly the amount back as ERC-20, and a replayed callback changes nothing.
func VerifC19MiddlewareSettles() {
	if sdk.GetConfig().GetBech32AccountAddrPrefix() != fxtypes.AddressPrefix {
		fxtypes.SetConfig(false)
	}
	ms := models.NewMultiStore("eth", erc20types.StoreKey)
	ctx := models.NewContext(ms, 100, 1700000000)
	bank, tok, evm := models.NewBank(ms), models.NewErc20(ms), models.NewEVM()
	ek := erc20keeper.NewKeeper(models.NewStoreKey(erc20types.StoreKey), models.NewCodec(nil), models.Accounts{}, bank, evm, tok, nil, verifAuthority)
	ck := crosschainkeeper.NewKeeper(models.NewCodec(nil), "eth", models.NewStoreKey("eth"), nil, nil, nil, bank, nil, ek, models.Accounts{}, evm, verifAuthority)
	k := Keeper{evmKeeper: evm, crossChainKeeper: ck}

	p := erc20types.DefaultParams()
	if err := ek.SetParams(ctx, &p); err != nil {
		panic(err)
	}
	denom := "usdt"
	ek.AddTokenPair(ctx, erc20types.TokenPair{Erc20Address: verifContract.Hex(), Denom: denom, Enabled: true, ContractOwner: erc20types.OWNER_MODULE})
	evm.Contracts = append(evm.Contracts, verifContract)
	aHex := common.BytesToAddress(verifUserA)
	coinA, tokA := verifAmount("coin.A", 100), verifAmount("token.A", 100)
	amount := verifAmount("amount", 64)
	bank.SetBalance(verifUserA, denom, coinA.Add(amount)) // the IBC module has already returned the coins
	bank.SetBalance(models.ModuleAddress(erc20types.ModuleName), denom, verifAmount("escrow", 100))
	tok.SetBalance(verifContract, aHex, tokA.BigInt())

	channels := []string{"channel-1", "channel-11", "channel-7"} // the first two: one id is a decimal prefix of the other
	nCh := rt.Bound("channelIds", 2, 3)
	srcA := channels[rt.Choose("A.sourceChannel", nCh)]
	dstA := channels[rt.Choose("A.destinationChannel", nCh)]
	srcB := channels[rt.Choose("B.sourceChannel", nCh)]
	seqA, seqB := rt.U64("A.sequence"), rt.U64("B.sequence")
	rt.Assume(rt.And(seqA >= 1, seqA < 1000, seqB >= 1, seqB < 1000)) // decimal renderings of up to three digits
	rt.Assume(rt.Or(srcA != srcB, seqA != seqB))
	ek.SetIBCTransferRelation(ctx, srcA, seqA)
	ek.SetIBCTransferRelation(ctx, srcB, seqB)
	packet := channeltypes.Packet{Sequence: seqA, SourcePort: "transfer", SourceChannel: srcA, DestinationPort: "transfer", DestinationChannel: dstA}
	data := transfertypes.FungibleTokenPacketData{Denom: denom, Amount: amount.String(), Sender: verifUserA.String(), Receiver: "cosmos1receiver"}
	rt.Cover("state-built")

	how := rt.Choose("settledBy", 3)
	settle := func() error {
		switch how {
		case 0:
			return k.OnAcknowledgementPacket(ctx, packet, data, channeltypes.Acknowledgement{Response: &channeltypes.Acknowledgement_Result{Result: []byte{1}}})
		case 1:
			return k.OnAcknowledgementPacket(ctx, packet, data, channeltypes.Acknowledgement{Response: &channeltypes.Acknowledgement_Error{Error: "failed"}})
		}
		return k.OnTimeoutPacket(ctx, packet, data)
	}
	if err := settle(); err != nil {
		rt.Cover("callback-failed")
		return // rolled back with the enclosing IBC callback
	}
	c1 := bank.Balance(verifUserA, denom)
	t1 := sdkmath.NewIntFromBigInt(tok.BalanceOf(verifContract, aHex))
	if how == 0 {
		rt.Cover("acknowledged")
		rt.Assert(rt.And(c1.Equal(coinA.Add(amount)), t1.Equal(tokA)), "a success acknowledgement moves no funds")
	} else {
		rt.Cover("refunded")
		rt.Assert(c1.Equal(coinA), "the refund converts exactly the amount out of the sender's coins")
		rt.Assert(t1.Equal(tokA.Add(amount)), "the refund credits exactly the amount as ERC-20 to the sender")
	}
	// a replayed callback changes nothing
	if settle() == nil {
		rt.Assert(rt.And(bank.Balance(verifUserA, denom).Equal(c1), sdkmath.NewIntFromBigInt(tok.BalanceOf(verifContract, aHex)).Equal(t1)), "a replayed callback moves no funds")
	}
	rt.Assert(!ek.DeleteIBCTransferRelation(ctx, srcA, seqA), "the settled transfer's tracking record is gone")
	rt.Assert(ek.DeleteIBCTransferRelation(ctx, srcB, seqB), "the other in-flight transfer keeps its tracking record")
}

// VerifC18IbcCallFailure: the EVM call carried by an incoming IBC transfer's memo. Whenever the
// call does not succeed (keeper error, revert, out of gas, invalid jump) the handler reports an
// error, so that the enclosing packet callback is acknowledged as failed and IBC core discards
// everything the packet did; it reports success only for a call that succeeded.
func VerifC18IbcCallFailure() {
	if sdk.GetConfig().GetBech32AccountAddrPrefix() != fxtypes.AddressPrefix {
		fxtypes.SetConfig(false)
	}
	ms := models.NewMultiStore("eth")
	ctx := models.NewContext(ms, 100, 1700000000)
	evm := models.NewEVM()
	k := Keeper{evmKeeper: evm}
	outcome := rt.Choose("callOutcome", 5)
	switch outcome {
	case 1:
		evm.CallFails = true
	case 2:
		evm.CallVmErr = true // execution reverted
	case 3:
		evm.CallVmErr, evm.VmErrText = true, "out of gas"
	case 4:
		evm.CallVmErr, evm.VmErrText = true, "invalid jump destination"
	}
	packet := &ibcmiddlewaretypes.IbcCallEvmPacket{To: verifContract.Hex(), Value: sdkmath.ZeroInt(), Data: "aabb"}
	err := k.HandlerIbcCallEvm(ctx, common.BytesToAddress(verifUserA), packet)
	rt.Cover("called")
	rt.Assert(evm.Calls == 1, "the contract is called exactly once")
	rt.Assert((err == nil) == (outcome == 0), "the memo call reports success exactly when the contract call succeeded")
}

// VerifC19RecvPacket: an inbound IBC transfer of a registered token (returning from the
// counterparty, so the transfer module has just released `amount` coins to the receiver) handled
// by the middleware without memo. Addressed to a hex account it credits exactly the sent amount
// as ERC-20 to that account (the released coins are converted, nothing else moves); addressed in
// any other form (bech32, junk) or with an unparsable amount it returns an error and moves nothing.
func VerifC19RecvPacket() {
	if sdk.GetConfig().GetBech32AccountAddrPrefix() != fxtypes.AddressPrefix {
		fxtypes.SetConfig(false)
	}
	ms := models.NewMultiStore("eth", erc20types.StoreKey)
	ctx := models.NewContext(ms, 100, 1700000000)
	bank, tok, evm := models.NewBank(ms), models.NewErc20(ms), models.NewEVM()
	ek := erc20keeper.NewKeeper(models.NewStoreKey(erc20types.StoreKey), models.NewCodec(nil), models.Accounts{}, bank, evm, tok, nil, verifAuthority)
	ck := crosschainkeeper.NewKeeper(models.NewCodec(nil), "eth", models.NewStoreKey("eth"), nil, nil, nil, bank, nil, ek, models.Accounts{}, evm, verifAuthority)
	k := Keeper{evmKeeper: evm, crossChainKeeper: ck}
	p := erc20types.DefaultParams()
	if err := ek.SetParams(ctx, &p); err != nil {
		panic(err)
	}
	denom := "usdt"
	ek.AddTokenPair(ctx, erc20types.TokenPair{Erc20Address: verifContract.Hex(), Denom: denom, Enabled: true, ContractOwner: erc20types.OWNER_MODULE})
	evm.Contracts = append(evm.Contracts, verifContract)
	aHex := common.BytesToAddress(verifUserA)
	coinA, tokA := verifAmount("coin.A", 100), verifAmount("token.A", 100)
	amount := verifAmount("amount", 64)
	rt.Assume(amount.IsPositive())
	bank.SetBalance(verifUserA, denom, coinA.Add(amount)) // released by the transfer module for this packet
	bank.SetBalance(models.ModuleAddress(erc20types.ModuleName), denom, verifAmount("escrow", 100))
	tok.SetBalance(verifContract, aHex, tokA.BigInt())
	receiver := []string{aHex.Hex(), verifUserA.String(), "not-an-address"}[rt.Choose("receiverForm", 3)]
	amountText := amount.String()
	badAmount := rt.Bool("unparsableAmount")
	if badAmount {
		amountText = "12x"
	}
	packet := channeltypes.Packet{Sequence: 3, SourcePort: "transfer", SourceChannel: "channel-9", DestinationPort: "transfer", DestinationChannel: "channel-0"}
	data := transfertypes.FungibleTokenPacketData{Denom: "transfer/channel-9/" + denom, Amount: amountText, Sender: "cosmos1sender", Receiver: receiver}
	rt.Cover("state-built")
	before := ms.Snapshot()
	err := k.OnRecvPacket(ctx, packet, data)
	c1 := bank.Balance(verifUserA, denom)
	t1 := sdkmath.NewIntFromBigInt(tok.BalanceOf(verifContract, aHex))
	if err != nil {
		rt.Cover("refused")
		rt.Assert(ms.Equal(before), "a refused packet moves nothing")
		return
	}
	rt.Cover("credited")
	rt.Assert(receiver == aHex.Hex() && !badAmount, "only a transfer addressed to a hex account is converted")
	rt.Assert(c1.Equal(coinA), "exactly the sent amount of coins is converted")
	rt.Assert(t1.Equal(tokA.Add(amount)), "the hex account is credited exactly the sent amount as ERC-20")
}
