package precompile

import (
	"math/big"

	sdkmath "cosmossdk.io/math"
	sdk "github.com/cosmos/cosmos-sdk/types"
	"github.com/ethereum/go-ethereum/common"
	"github.com/ethereum/go-ethereum/core/vm"

	"github.com/functionx/fx-core/v8/contract"
	fxstakingtypes "github.com/functionx/fx-core/v8/x/staking/types"
	"github.com/functionx/fx-core/v8/zzverif/models"
	"github.com/functionx/fx-core/v8/zzverif/rt"
)

func (e *verifStakingEnv) withRevert() {
	var snap *models.LedgerSnap
	e.sdb.TakeSnap = func() { snap = e.ledger.Snapshot() }
	e.sdb.OnRevert = func() { e.ledger.Restore(snap) }
}

func verifFrame(caller common.Address, input []byte) *vm.Contract {
	c := vm.NewContract(vm.AccountRef(caller), vm.AccountRef(fxstakingtypes.GetAddress()), big.NewInt(0), 1_000_000)
	c.Input = input
	return c
}

// VerifC10TransferFromRun: transferFromShares run through the real method object (ABI argument
// struct, Validate, ExecuteNativeAction): shares of `from` move only with an allowance granted to
// the DIRECT caller, by at most that allowance, which drops by exactly the shares moved; the
// caller's own delegation, other spenders' allowances and a bystander are untouched; a failed call
// leaves everything as it was.
func VerifC10TransferFromRun() {
	e := verifNewStakingEnv(0)
	e.k.stakingKeeper = verifSK{l: e.ledger}
	e.k.distrMsgServer = verifDistrMsgs{l: e.ledger}
	e.withRevert()
	owner, spender, recipient := verifAcc[0], verifAcc[1], verifAcc[2]
	sOwner, sSpender := verifShares("shares.owner"), verifShares("shares.spender")
	e.ledger.SetShares(owner.Bytes(), sOwner, 3)
	e.ledger.SetShares(spender.Bytes(), sSpender, 4)
	a, o := rt.BigInt("allowance.spender"), rt.BigInt("allowance.recipient")
	lim := new(big.Int).Lsh(big.NewInt(1), 100)
	rt.Assume(rt.And(a.Sign() >= 0, a.Cmp(lim) < 0, o.Sign() >= 0, o.Cmp(lim) < 0))
	e.ledger.SetAllowance(e.ctx, verifValAddr, owner.Bytes(), spender.Bytes(), a)
	e.ledger.SetAllowance(e.ctx, verifValAddr, owner.Bytes(), recipient.Bytes(), o)
	xb := rt.BigInt("shares")
	rt.Assume(rt.And(xb.Sign() > 0, xb.Cmp(new(big.Int).Lsh(big.NewInt(1), 60)) < 0))
	x := sdkmath.LegacyNewDecFromBigInt(xb)

	m := NewTransferFromSharesMethod(e.k)
	input, err := m.PackInput(fxstakingtypes.TransferFromSharesArgs{Validator: verifValAddr.String(), From: owner, To: recipient, Shares: xb})
	if err != nil {
		rt.Assert(false, "harness: cannot pack input")
	}
	rt.Cover("state-built")
	_, err = m.Run(e.evm, verifFrame(spender, input))
	allow := e.ledger.GetAllowance(e.ctx, verifValAddr, owner.Bytes(), spender.Bytes())
	ownerAfter, _ := e.ledger.Shares(owner.Bytes())
	spenderAfter, _ := e.ledger.Shares(spender.Bytes())
	recAfter, _ := e.ledger.Shares(recipient.Bytes())
	if err != nil {
		rt.Cover("failed")
		rt.Assert(allow.Cmp(a) == 0, "failed call leaves the allowance as it was")
		rt.Assert(rt.And(ownerAfter.Equal(sOwner), recAfter.IsZero()), "failed call moves no shares")
	} else {
		rt.Cover("moved")
		rt.Assert(a.Cmp(xb) >= 0, "at most the allowance granted to the direct caller can be moved")
		rt.Assert(new(big.Int).Add(allow, xb).Cmp(a) == 0, "caller's allowance reduced by exactly the shares moved")
		rt.Assert(ownerAfter.Equal(sOwner.Sub(x)), "owner loses exactly the shares moved")
		rt.Assert(recAfter.Equal(x), "recipient gains exactly the shares moved")
	}
	rt.Assert(spenderAfter.Equal(sSpender), "the caller's own delegation is untouched")
	rt.Assert(e.ledger.GetAllowance(e.ctx, verifValAddr, owner.Bytes(), recipient.Bytes()).Cmp(o) == 0, "allowances of other spenders untouched")
}

// VerifC10TransferRun: transferShares takes shares only from the direct caller.
func VerifC10TransferRun() {
	e := verifNewStakingEnv(0)
	e.k.stakingKeeper = verifSK{l: e.ledger}
	e.k.distrMsgServer = verifDistrMsgs{l: e.ledger}
	e.withRevert()
	caller, victim, recipient := verifAcc[0], verifAcc[1], verifAcc[2]
	sCaller, sVictim := verifShares("shares.caller"), verifShares("shares.victim")
	e.ledger.SetShares(caller.Bytes(), sCaller, 3)
	e.ledger.SetShares(victim.Bytes(), sVictim, 4)
	xb := rt.BigInt("shares")
	rt.Assume(rt.And(xb.Sign() > 0, xb.Cmp(new(big.Int).Lsh(big.NewInt(1), 60)) < 0))
	m := NewTransferSharesMethod(e.k)
	input, err := m.PackInput(fxstakingtypes.TransferSharesArgs{Validator: verifValAddr.String(), To: recipient, Shares: xb})
	if err != nil {
		rt.Assert(false, "harness: cannot pack input")
	}
	_, err = m.Run(e.evm, verifFrame(caller, input))
	vAfter, _ := e.ledger.Shares(victim.Bytes())
	cAfter, _ := e.ledger.Shares(caller.Bytes())
	rt.Assert(vAfter.Equal(sVictim), "a non-caller's delegation is never reduced")
	if err == nil {
		rt.Cover("moved")
		rt.Assert(cAfter.Equal(sCaller.Sub(sdkmath.LegacyNewDecFromBigInt(xb))), "shares come out of the direct caller's delegation")
	} else {
		rt.Cover("failed")
		rt.Assert(cAfter.Equal(sCaller), "failed call leaves the caller's delegation alone")
	}
}

// fake method table entries for the dispatcher harness
type verifMethod struct {
	id       []byte
	readonly bool
	entered  *int
}

func (m verifMethod) GetMethodId() []byte { return m.id }
func (m verifMethod) IsReadonly() bool    { return m.readonly }
func (m verifMethod) RequiredGas() uint64 { return 1 }
func (m verifMethod) Run(evm *vm.EVM, c *vm.Contract) ([]byte, error) {
	*m.entered++
	return []byte{1}, nil
}

type verifGov struct{ disabled bool }

func (g verifGov) CheckDisabledPrecompiles(ctx sdk.Context, a common.Address, id []byte) error {
	if g.disabled {
		return errDisabled
	}
	return nil
}

type verifErr string

func (e verifErr) Error() string { return string(e) }

const errDisabled = verifErr("disabled by governance")

// VerifC10Dispatch: the staking precompile dispatcher over an arbitrary method table: a
// state-changing method is never entered in a read-only (static / delegate / callcode) context,
// no method is entered when governance disabled it, and exactly the method whose 4-byte id
// matches the call data is entered, at most once.
func VerifC10Dispatch() {
	e := verifNewStakingEnv(0)
	entered := [2]int{}
	ids := [2][]byte{rt.Bytes("method0.id", 4), rt.Bytes("method1.id", 4)}
	ro := [2]bool{rt.Bool("method0.readonly"), rt.Bool("method1.readonly")}
	rt.Assume(rt.Not(rt.BytesEq(ids[0], ids[1])))
	disabled := rt.Bool("disabledByGovernance")
	c := &Contract{methods: []contract.PrecompileMethod{
		verifMethod{ids[0], ro[0], &entered[0]}, verifMethod{ids[1], ro[1], &entered[1]}}, govKeeper: verifGov{disabled}}
	n := rt.Choose("inputLen", 3)
	input := rt.Bytes("input", []int{3, 4, 6}[n])
	readonly := rt.Bool("readonlyContext")
	_, err := c.Run(e.evm, verifFrame(verifAcc[0], input), readonly)
	rt.Assert(err != nil || true, "dispatcher returns")
	total := entered[0] + entered[1]
	rt.Assert(total <= 1, "at most one method is entered, at most once")
	for k := 0; k < 2; k++ {
		if entered[k] > 0 {
			rt.Cover("entered")
			rt.Assert(len(input) > 4, "a method is entered only with call data beyond the selector")
			rt.Assert(rt.BytesEq(input[:4], ids[k]), "the entered method is the one whose id matches the selector")
			rt.Assert(rt.Or(!readonly, ro[k]), "a state-changing method is never entered in a read-only context")
			rt.Assert(!disabled, "a method disabled by governance is never entered")
		}
	}
	if total == 0 {
		rt.Cover("not-entered")
	}
}

// VerifC09StakingAtomic: share transfer through the real Run with a fault injected at the k-th
// state-changing keeper call (k symbolic, 0 = no fault): every Cosmos-side mutation happens inside
// ExecuteNativeAction; an injected failure is never swallowed (Run returns an error); after an
// error the ledger is what it was before the call and no log remains; without a fault the whole
// effect is committed together with its logs.
func VerifC09StakingAtomic() {
	e := verifNewStakingEnv(0)
	e.k.stakingKeeper = verifSK{l: e.ledger}
	e.k.distrMsgServer = verifDistrMsgs{l: e.ledger}
	e.withRevert()
	owner, spender, recipient := verifAcc[0], verifAcc[1], verifAcc[2]
	sOwner := verifShares("shares.owner")
	e.ledger.SetShares(owner.Bytes(), sOwner, 3)
	if rt.Bool("recipientHasDelegation") {
		e.ledger.SetShares(recipient.Bytes(), verifShares("shares.recipient"), 4)
	}
	xb := rt.BigInt("shares")
	rt.Assume(rt.And(xb.Sign() > 0, xb.Cmp(new(big.Int).Lsh(big.NewInt(1), 60)) < 0))
	e.ledger.SetAllowance(e.ctx, verifValAddr, owner.Bytes(), spender.Bytes(), new(big.Int).Lsh(big.NewInt(1), 70))
	e.ledger.Guard = func() { rt.Assert(e.sdb.Depth > 0, "Cosmos state is changed only inside ExecuteNativeAction") }
	e.ledger.FailAt = rt.Choose("failAtMutation", 8)
	before := e.ledger.Snapshot()
	var err error
	if rt.Bool("transferFrom") {
		m := NewTransferFromSharesMethod(e.k)
		input, perr := m.PackInput(fxstakingtypes.TransferFromSharesArgs{Validator: verifValAddr.String(), From: owner, To: recipient, Shares: xb})
		if perr != nil {
			rt.Assert(false, "harness: cannot pack input")
		}
		_, err = m.Run(e.evm, verifFrame(spender, input))
	} else {
		m := NewTransferSharesMethod(e.k)
		input, perr := m.PackInput(fxstakingtypes.TransferSharesArgs{Validator: verifValAddr.String(), To: recipient, Shares: xb})
		if perr != nil {
			rt.Assert(false, "harness: cannot pack input")
		}
		_, err = m.Run(e.evm, verifFrame(owner, input))
	}
	if e.ledger.Fired {
		rt.Cover("fault-hit")
		rt.Assert(err != nil, "a failing keeper call is never swallowed: the precompile call fails")
	}
	if err != nil {
		rt.Cover("failed")
		rt.Assert(e.ledger.SameAs(before), "after a failed call the staking state is exactly what it was")
		rt.Assert(len(e.sdb.Logs) == 0, "a failed call leaves no log")
	} else {
		rt.Cover("committed")
		rt.Assert(len(e.sdb.Logs) >= 2, "the committed call left its logs (withdraw + transfer)")
		after, _ := e.ledger.Shares(owner.Bytes())
		rt.Assert(after.Equal(sOwner.Sub(sdkmath.LegacyNewDecFromBigInt(xb))), "the committed call moved the shares")
	}
}

// VerifC09ApproveShares: approveShares through the real Run, by an arbitrary direct caller. The
// allowance is written inside ExecuteNativeAction (so the EVM journal can undo it together with
// the call frame), for exactly (validator, caller, spender) and exactly the given shares; other
// owners' and other spenders' allowances are untouched; exactly one log.
func VerifC09ApproveShares() {
	e := verifNewStakingEnv(0)
	e.k.stakingKeeper = verifSK{l: e.ledger}
	e.withRevert()
	owner, spender, other := verifAcc[0], verifAcc[1], verifAcc[2]
	old := rt.BigInt("allowance.before")
	xb := rt.BigInt("shares")
	lim := new(big.Int).Lsh(big.NewInt(1), 200)
	rt.Assume(rt.And(old.Sign() >= 0, old.Cmp(lim) < 0, xb.Sign() >= 0, xb.Cmp(lim) < 0))
	e.ledger.SetAllowance(e.ctx, verifValAddr, owner.Bytes(), spender.Bytes(), old)
	e.ledger.SetAllowance(e.ctx, verifValAddr, owner.Bytes(), other.Bytes(), big.NewInt(11))
	e.ledger.SetAllowance(e.ctx, verifValAddr, other.Bytes(), spender.Bytes(), big.NewInt(13))
	e.ledger.Guard = func() { rt.Assert(e.sdb.Depth > 0, "Cosmos state is changed only inside ExecuteNativeAction") }
	m := NewApproveSharesMethod(e.k)
	input, perr := m.PackInput(fxstakingtypes.ApproveSharesArgs{Validator: verifValAddr.String(), Spender: spender, Shares: xb})
	if perr != nil {
		rt.Assert(false, "harness: cannot pack input")
		return
	}
	_, err := m.Run(e.evm, verifFrame(owner, input))
	rt.Cover("called")
	if err != nil {
		return
	}
	rt.Assert(e.ledger.GetAllowance(e.ctx, verifValAddr, owner.Bytes(), spender.Bytes()).Cmp(xb) == 0, "the allowance of (caller, spender) is exactly the approved shares")
	rt.Assert(e.ledger.GetAllowance(e.ctx, verifValAddr, owner.Bytes(), other.Bytes()).Cmp(big.NewInt(11)) == 0 &&
		e.ledger.GetAllowance(e.ctx, verifValAddr, other.Bytes(), spender.Bytes()).Cmp(big.NewInt(13)) == 0, "other owners' and other spenders' allowances are untouched")
	rt.Assert(len(e.sdb.Logs) == 1, "exactly one log")
}
