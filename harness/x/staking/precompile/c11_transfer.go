package precompile

import (
	"context"
	"math/big"

	sdkmath "cosmossdk.io/math"
	sdk "github.com/cosmos/cosmos-sdk/types"
	distrtypes "github.com/cosmos/cosmos-sdk/x/distribution/types"
	stakingtypes "github.com/cosmos/cosmos-sdk/x/staking/types"
	"github.com/ethereum/go-ethereum/common"
	"github.com/ethereum/go-ethereum/core/vm"

	fxtypes "github.com/functionx/fx-core/v8/types"
	"github.com/functionx/fx-core/v8/zzverif/models"
	"github.com/functionx/fx-core/v8/zzverif/rt"
)

type verifStakingEnv struct {
	ms     *models.MultiStore
	ctx    sdk.Context
	bank   *models.Bank
	ledger *models.StakingLedger
	sdb    *models.StateDB
	evm    *vm.EVM
	k      *Keeper
}

var (
	verifValAddr = sdk.ValAddress([]byte{0x7a, 1, 1, 1, 1, 1, 1, 1, 1, 1, 1, 1, 1, 1, 1, 1, 1, 1, 1, 1})
	verifAcc     = [3]common.Address{
		common.HexToAddress("0x00000000000000000000000000000000000000a1"),
		common.HexToAddress("0x00000000000000000000000000000000000000b2"),
		common.HexToAddress("0x00000000000000000000000000000000000000c3"),
	}
)

// verifNewStakingEnv: one bonded validator whose exchange rate tokens/shares is 1 or 3/2.
func verifNewStakingEnv(rate int) *verifStakingEnv {
	if sdk.GetConfig().GetBech32AccountAddrPrefix() != fxtypes.AddressPrefix {
		fxtypes.SetConfig(false)
	}
	ms := models.NewMultiStore("staking")
	e := &verifStakingEnv{ms: ms, bank: models.NewBank(ms)}
	e.ctx = models.NewContext(e.ms, 50, 1700000000)
	unit := sdkmath.NewIntFromUint64(1_000_000_000_000_000_000)
	val := stakingtypes.Validator{OperatorAddress: verifValAddr.String(), Status: stakingtypes.Bonded,
		Tokens: unit.MulRaw(3000), DelegatorShares: sdkmath.LegacyNewDecFromInt(unit.MulRaw(3000))}
	if rate == 1 {
		val.DelegatorShares = sdkmath.LegacyNewDecFromInt(unit.MulRaw(2000))
	}
	e.ledger = models.NewStakingLedger(val, verifValAddr, e.bank, fxtypes.DefaultDenom)
	e.sdb = models.NewStateDB(e.ctx)
	e.evm = &vm.EVM{Context: vm.BlockContext{BlockNumber: big.NewInt(50)}, StateDB: e.sdb}
	e.k = &Keeper{bankKeeper: e.bank, distrKeeper: e.ledger, distrMsgServer: nil, stakingKeeper: nil, stakingDenom: fxtypes.DefaultDenom}
	return e
}

// verifShares: an arbitrary non-negative share amount with 18 fractional digits (delegations carry
// fractional shares whenever the validator's exchange rate is not 1).
func verifShares(name string) sdkmath.LegacyDec {
	b := rt.BigInt(name)
	rt.Assume(rt.And(b.Sign() >= 0, b.Cmp(new(big.Int).Lsh(big.NewInt(1), 150)) < 0))
	return sdkmath.LegacyNewDecFromBigIntWithPrec(b, 18)
}

// wrappers: the precompile's keeper interfaces are wide; only the methods the share-transfer code
// uses are forwarded to the ledger model, everything else is the nil embedded interface.
type verifSK struct {
	StakingKeeper
	l *models.StakingLedger
}

func (w verifSK) GetDelegation(ctx context.Context, d sdk.AccAddress, v sdk.ValAddress) (stakingtypes.Delegation, error) {
	return w.l.GetDelegation(ctx, d, v)
}
func (w verifSK) SetDelegation(ctx context.Context, d stakingtypes.Delegation) error {
	return w.l.SetDelegation(ctx, d)
}
func (w verifSK) RemoveDelegation(ctx context.Context, d stakingtypes.Delegation) error {
	return w.l.RemoveDelegation(ctx, d)
}
func (w verifSK) GetValidator(ctx context.Context, a sdk.ValAddress) (stakingtypes.Validator, error) {
	return w.l.GetValidator(ctx, a)
}
func (w verifSK) HasReceivingRedelegation(ctx context.Context, d sdk.AccAddress, v sdk.ValAddress) (bool, error) {
	return w.l.HasReceivingRedelegation(ctx, d, v)
}
func (w verifSK) GetAllowance(ctx sdk.Context, v sdk.ValAddress, o, s sdk.AccAddress) *big.Int {
	return w.l.GetAllowance(ctx, v, o, s)
}
func (w verifSK) SetAllowance(ctx sdk.Context, v sdk.ValAddress, o, s sdk.AccAddress, sh *big.Int) {
	w.l.SetAllowance(ctx, v, o, s, sh)
}

type verifDistrMsgs struct {
	distrtypes.MsgServer
	l *models.StakingLedger
}

func (w verifDistrMsgs) WithdrawDelegatorReward(ctx context.Context, m *distrtypes.MsgWithdrawDelegatorReward) (*distrtypes.MsgWithdrawDelegatorRewardResponse, error) {
	return w.l.WithdrawDelegatorReward(ctx, m)
}

// VerifC11TransferShares: handlerTransferShares / decrementAllowance on the ledger model, for
// every aliasing case (sender == recipient, recipient with / without delegation, full / partial
// amount) and symbolic share amounts.
func VerifC11TransferShares() {
	e := verifNewStakingEnv(rt.Choose("exchangeRate", 2))
	e.k.stakingKeeper = verifSK{l: e.ledger}
	e.k.distrMsgServer = verifDistrMsgs{l: e.ledger}
	m := NewTransferSharesMethod(e.k).TransferShare

	fromI := 0
	toI := rt.Choose("recipient", 3) // 0 = the sender itself, 1 = an existing delegator, 2 = no delegation yet
	from, to := verifAcc[fromI], verifAcc[toI]
	sFrom := verifShares("shares.from")
	sOther := verifShares("shares.recipient")
	e.ledger.SetShares(from.Bytes(), sFrom, 3)
	if toI == 1 {
		e.ledger.SetShares(to.Bytes(), sOther, 4)
	}
	e.ledger.Reward = sdkmath.NewInt(int64(rt.Choose("reward", 2)) * 7)
	xb := rt.BigInt("transfer.shares")
	rt.Assume(rt.And(xb.Sign() > 0, xb.Cmp(new(big.Int).Lsh(big.NewInt(1), 60)) < 0))
	x := sdkmath.LegacyNewDecFromBigInt(xb)
	valBefore := e.ledger.Validator
	rt.Cover("state-built")
	if toI == 0 {
		rt.Cover("self-transfer")
	}

	_, _, err := m.handlerTransferShares(e.ctx, e.evm, verifValAddr, from, to, xb)
	fAfter, fHas := e.ledger.Shares(from.Bytes())
	tAfter, tHas := e.ledger.Shares(to.Bytes())
	if err != nil {
		rt.Cover("refused")
		if toI == 0 {
			rt.Assert(rt.And(fHas, fAfter.Equal(sFrom)), "a refused transfer to oneself leaves the delegation unchanged")
		}
		return // reverted with the call frame
	}
	rt.Cover("transferred")
	rt.Assert(sFrom.GTE(x), "cannot transfer more shares than the sender has")
	if toI == 0 {
		rt.Assert(rt.And(fHas, fAfter.Equal(sFrom)), "a transfer to oneself leaves the delegation unchanged")
	} else {
		rt.Assert(fAfter.Equal(sFrom.Sub(x)), "sender's delegation decreases by exactly the shares")
		rt.Assert(fHas == !sFrom.Equal(x), "emptied delegation is removed, non-empty one kept")
		before := sdkmath.LegacyZeroDec()
		if toI == 1 {
			before = sOther
		}
		rt.Assert(rt.And(tHas, tAfter.Equal(before.Add(x))), "recipient's delegation increases by exactly the shares")
		// distribution bookkeeping
		si, ok := e.ledger.StartingInfo(to.Bytes())
		rt.Assert(ok, "recipient has a starting info")
		if ok {
			rt.Assert(si.Stake.Equal(sdkmath.LegacyNewDecFromInt(valBefore.TokensFromSharesTruncated(tAfter).TruncateInt())) || si.Stake.Equal(valBefore.TokensFromSharesTruncated(tAfter)), "recipient's starting stake matches its shares")
		}
		_, fStart := e.ledger.StartingInfo(from.Bytes())
		rt.Assert(fStart == fHas, "sender keeps a starting info iff it keeps a delegation")
	}
	rt.Assert(e.ledger.Validator.Tokens.Equal(valBefore.Tokens) && e.ledger.Validator.DelegatorShares.Equal(valBefore.DelegatorShares), "validator tokens and total shares untouched")
	// rewards withdrawn for both parties before the rewrite
	rt.Assert(len(e.ledger.Withdrawn) >= 1 && string(e.ledger.Withdrawn[0]) == string(from.Bytes()), "sender's rewards withdrawn first")
	if toI == 1 {
		rt.Assert(len(e.ledger.Withdrawn) == 2 && string(e.ledger.Withdrawn[1]) == string(to.Bytes()), "existing recipient's rewards withdrawn too")
	}
}

// VerifC11Allowance: transferFromShares' allowance check-and-decrement: fails when the allowance
// is smaller than the shares, otherwise lowers exactly the (owner, spender) allowance by exactly
// the shares and no other allowance.
func VerifC11Allowance() {
	e := verifNewStakingEnv(0)
	e.k.stakingKeeper = verifSK{l: e.ledger}
	m := NewTransferFromSharesMethod(e.k).TransferShare
	owner, spender, other := verifAcc[0].Bytes(), verifAcc[1].Bytes(), verifAcc[2].Bytes()
	a := rt.BigInt("allowance")
	o := rt.BigInt("otherAllowance")
	x := rt.BigInt("shares")
	lim := new(big.Int).Lsh(big.NewInt(1), 200)
	rt.Assume(rt.And(a.Sign() >= 0, a.Cmp(lim) < 0, o.Sign() >= 0, o.Cmp(lim) < 0, x.Sign() >= 0, x.Cmp(lim) < 0))
	e.ledger.SetAllowance(e.ctx, verifValAddr, owner, spender, a)
	e.ledger.SetAllowance(e.ctx, verifValAddr, owner, other, o)
	err := m.decrementAllowance(e.ctx, verifValAddr, owner, spender, x)
	got := e.ledger.GetAllowance(e.ctx, verifValAddr, owner, spender)
	if err != nil {
		rt.Cover("refused")
		rt.Assert(a.Cmp(x) < 0, "refused only when the allowance is smaller than the shares")
		rt.Assert(got.Cmp(a) == 0, "refused transfer leaves the allowance alone")
	} else {
		rt.Cover("decremented")
		rt.Assert(a.Cmp(x) >= 0, "at most the allowance can be moved")
		rt.Assert(new(big.Int).Add(got, x).Cmp(a) == 0, "allowance reduced by exactly the shares moved")
	}
	rt.Assert(e.ledger.GetAllowance(e.ctx, verifValAddr, owner, other).Cmp(o) == 0, "other spenders' allowances untouched")
}
