package precompile

import (
	"context"
	"math/big"

	sdk "github.com/cosmos/cosmos-sdk/types"
	distrtypes "github.com/cosmos/cosmos-sdk/x/distribution/types"
	stakingtypes "github.com/cosmos/cosmos-sdk/x/staking/types"
	"github.com/ethereum/go-ethereum/common"

	fxstakingtypes "github.com/functionx/fx-core/v8/x/staking/types"
	"github.com/functionx/fx-core/v8/zzverif/models"
	"github.com/functionx/fx-core/v8/zzverif/rt"
)

// verifStakingSrv / verifDistrSrv forward the messages the precompile issues to the recording
// model; every other method of the wide interfaces is the nil embedded interface.
type verifStakingSrv struct {
	stakingtypes.MsgServer
	st *models.StakingMsgs
}

func (w verifStakingSrv) Delegate(ctx context.Context, m *stakingtypes.MsgDelegate) (*stakingtypes.MsgDelegateResponse, error) {
	return w.st.Delegate(ctx, m)
}

func (w verifStakingSrv) Undelegate(ctx context.Context, m *stakingtypes.MsgUndelegate) (*stakingtypes.MsgUndelegateResponse, error) {
	return w.st.Undelegate(ctx, m)
}

func (w verifStakingSrv) BeginRedelegate(ctx context.Context, m *stakingtypes.MsgBeginRedelegate) (*stakingtypes.MsgBeginRedelegateResponse, error) {
	return w.st.BeginRedelegate(ctx, m)
}

type verifDistrSrv struct {
	distrtypes.MsgServer
	st *models.StakingMsgs
}

func (w verifDistrSrv) WithdrawDelegatorReward(ctx context.Context, m *distrtypes.MsgWithdrawDelegatorReward) (*distrtypes.MsgWithdrawDelegatorRewardResponse, error) {
	return w.st.WithdrawDelegatorReward(ctx, m)
}

// VerifC10StakingMessages: delegateV2, undelegateV2, redelegateV2 and withdraw run through their
// method objects with an arbitrary direct caller. The staking / distribution message each of them
// issues names exactly the DIRECT caller as delegator (never another account), the validator(s)
// and exactly the amount of the call; a failing message server makes the call fail, leaves no
// log and the native state as it was.
func VerifC10StakingMessages() {
	e := verifNewStakingEnv(0)
	st := &models.StakingMsgs{}
	e.k.stakingMsgServer = verifStakingSrv{st: st}
	e.k.distrMsgServer = verifDistrSrv{st: st}
	caller := common.BytesToAddress(rt.Bytes("caller", 20))
	amt := rt.BigInt("amount")
	rt.Assume(rt.And(amt.Sign() > 0, amt.BitLen() <= 128))
	val := verifValAddr.String()
	val2 := sdk.ValAddress([]byte{0x72, 2, 2, 2, 2, 2, 2, 2, 2, 2, 2, 2, 2, 2, 2, 2, 2, 2, 2, 2}).String()
	st.FailNext = rt.Bool("messageServerFails")
	method := rt.Choose("method", 4)
	var err error
	var input []byte
	before := e.ms.Snapshot()
	switch method {
	case 0:
		m := NewDelegateV2Method(e.k)
		if input, err = m.PackInput(fxstakingtypes.DelegateV2Args{Validator: val, Amount: amt}); err == nil {
			_, err = m.Run(e.evm, verifFrame(caller, input))
		}
	case 1:
		m := NewUndelegateV2Method(e.k)
		if input, err = m.PackInput(fxstakingtypes.UndelegateV2Args{Validator: val, Amount: amt}); err == nil {
			_, err = m.Run(e.evm, verifFrame(caller, input))
		}
	case 2:
		m := NewRedelegateV2Method(e.k)
		if input, err = m.PackInput(fxstakingtypes.RedelegateV2Args{ValidatorSrc: val, ValidatorDst: val2, Amount: amt}); err == nil {
			_, err = m.Run(e.evm, verifFrame(caller, input))
		}
	default:
		m := NewWithdrawMethod(e.k)
		if input, err = m.PackInput(fxstakingtypes.WithdrawArgs{Validator: val}); err == nil {
			_, err = m.Run(e.evm, verifFrame(caller, input))
		}
	}
	rt.Cover("called")
	want := sdk.AccAddress(caller.Bytes()).String()
	if err != nil {
		rt.Cover("failed")
		rt.Assert(len(st.Recs) == 0 && len(e.sdb.Logs) == 0 && e.ms.Equal(before), "a failed call issues no message, leaves no log and the native state as it was")
		return
	}
	rt.Cover("succeeded")
	rt.Assert(len(st.Recs) == 1, "exactly one staking / distribution message per call")
	if len(st.Recs) == 1 {
		r := st.Recs[0]
		rt.Assert(rt.StrEq(r.Delegator, want), "the message acts for the direct caller and for nobody else")
		rt.Assert(r.Validator == val, "the message names the validator of the call")
		rt.Assert(r.Kind == []string{"delegate", "undelegate", "redelegate", "withdraw"}[method], "the message is of the kind of the method")
		if method != 3 {
			rt.Assert(r.Amount.BigInt().Cmp(amt) == 0, "the message moves exactly the amount of the call")
		}
		if method == 2 {
			rt.Assert(r.Dst == val2, "the redelegation goes to the validator of the call")
		}
	}
	rt.Assert(len(e.sdb.Logs) == 1, "exactly one log")
}

var _ = big.NewInt
