package types

import (
	sdk "github.com/cosmos/cosmos-sdk/types"

	fxtypes "github.com/functionx/fx-core/v8/types"
	"github.com/functionx/fx-core/v8/zzverif/models"
	"github.com/functionx/fx-core/v8/zzverif/rt"
)

// VerifC20ValidateErc20Msgs: ValidateBasic of the erc20 messages never panics on ill-formed
// fields (see models.Hostile); valid conversions are reachable.
func VerifC20ValidateErc20Msgs() {
	if sdk.GetConfig().GetBech32AccountAddrPrefix() != fxtypes.AddressPrefix {
		fxtypes.SetConfig(false)
	}
	h := &models.Hostile{Budget: rt.Bound("illFormedFieldsAtOnce", 2, 3)}
	var err error
	switch rt.Choose("message", 6) {
	case 0:
		err = (&MsgConvertCoin{Coin: h.Coin("coin", "usdt"), Receiver: h.Ext("receiver"), Sender: h.Acc("sender")}).ValidateBasic()
	case 1:
		err = (&MsgConvertERC20{ContractAddress: h.Ext("contract"), Amount: h.Int("amount"), Receiver: h.Acc("receiver"), Sender: h.Ext("sender")}).ValidateBasic()
	case 2:
		err = (&MsgConvertDenom{Sender: h.Acc("sender"), Receiver: h.Acc("receiver"), Coin: h.Coin("coin", "usdt"), Target: h.Junk("target", 3)}).ValidateBasic()
	case 3:
		m := &MsgRegisterERC20{Authority: h.Acc("authority"), Erc20Address: h.Ext("erc20")}
		for i, n := 0, rt.Choose("aliases", 3); i < n; i++ {
			m.Aliases = append(m.Aliases, []string{"usdt", "", " ", "bad denom!"}[rt.Choose("alias", 4)])
		}
		err = m.ValidateBasic()
	case 4:
		err = (&MsgToggleTokenConversion{Authority: h.Acc("authority"), Token: []string{models.HostileExtAddr, "usdt", "", "bad denom!"}[rt.Choose("token", 4)]}).ValidateBasic()
	default:
		err = (&MsgUpdateDenomAlias{Authority: h.Acc("authority"), Denom: []string{"usdt", "", "bad denom!"}[rt.Choose("denom", 3)],
			Alias: []string{"eth0x1", "", "bad denom!", "usdt"}[rt.Choose("alias", 4)]}).ValidateBasic()
	}
	if err == nil {
		rt.Cover("valid")
	} else {
		rt.Cover("rejected")
	}
}
