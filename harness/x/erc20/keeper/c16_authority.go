package keeper

import (
	banktypes "github.com/cosmos/cosmos-sdk/x/bank/types"

	"github.com/functionx/fx-core/v8/x/erc20/types"
	"github.com/functionx/fx-core/v8/zzverif/models"
	"github.com/functionx/fx-core/v8/zzverif/rt"
)

const verifAuthority = "fx10d07y265gmmuvt4z0w9aw880jnsr700jqjzsmz"

// VerifC16Erc20: the five privileged erc20 handlers reject any authority other than the keeper's
// and write nothing.
func VerifC16Erc20() {
	ms := models.NewMultiStore(types.StoreKey)
	ctx := models.NewContext(ms, 10, 1700000000)
	k := Keeper{storeKey: models.NewStoreKey(types.StoreKey), cdc: models.NewCodec(nil), authority: verifAuthority}
	lens := []int{0, len(verifAuthority), len(verifAuthority) + 1}
	auth := rt.Str("authority", lens[rt.Choose("authority.len", len(lens))])
	rt.Assume(rt.Not(rt.StrEq(auth, verifAuthority)))
	before := ms.TotalWrites()
	var err error
	switch rt.Choose("handler", 5) {
	case 0:
		_, err = k.UpdateParams(ctx, &types.MsgUpdateParams{Authority: auth, Params: types.DefaultParams()})
	case 1:
		_, err = k.RegisterCoin(ctx, &types.MsgRegisterCoin{Authority: auth, Metadata: banktypes.Metadata{Base: "test", Display: "test", Symbol: "TEST"}})
	case 2:
		_, err = k.RegisterERC20(ctx, &types.MsgRegisterERC20{Authority: auth, Erc20Address: "0x0000000000000000000000000000000000000001"})
	case 3:
		_, err = k.ToggleTokenConversion(ctx, &types.MsgToggleTokenConversion{Authority: auth, Token: "test"})
	default:
		_, err = k.UpdateDenomAlias(ctx, &types.MsgUpdateDenomAlias{Authority: auth, Denom: "test", Alias: "alias"})
	}
	rt.Cover("called")
	rt.Assert(err != nil, "foreign authority is rejected")
	rt.Assert(ms.TotalWrites() == before, "rejected privileged message writes nothing")
}
