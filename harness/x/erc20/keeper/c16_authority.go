package keeper

import (
	banktypes "github.com/cosmos/cosmos-sdk/x/bank/types"

	"github.com/functionx/fx-core/v8/x/erc20/types"
	"github.com/functionx/fx-core/v8/zzverif/rt"
)

const verifAuthority = "fx10d07y265gmmuvt4z0w9aw880jnsr700jqjzsmz"

// verifC16State: an erc20 keeper over models in a state in which each of the five privileged
// requests below WOULD succeed and write if it came from the governance authority (the accept
// witness checks exactly that), so that a handler going past a missing or weakened guard is seen.
func verifC16State() *verifErc20Env {
	e := verifNewErc20Env()
	e.k.AddTokenPair(e.ctx, types.TokenPair{Erc20Address: verifContract.Hex(), Denom: "usdt", Enabled: true, ContractOwner: types.OWNER_MODULE})
	e.bank.SetDenomMetaData(e.ctx, banktypes.Metadata{Base: "usdt", Display: "usdt", Name: "Tether", Symbol: "USDT",
		DenomUnits: []*banktypes.DenomUnit{{Denom: "usdt", Exponent: 0, Aliases: []string{"eth0xaa"}}}})
	e.k.SetAliasesDenom(e.ctx, "usdt", "eth0xaa")
	return e
}

func (e *verifErc20Env) changes() int {
	return e.ms.TotalWrites() + e.bank.Ops() + e.tok.Ops() + len(e.evm.Contracts)
}

func (e *verifErc20Env) callPrivileged(handler int, auth string) error {
	var err error
	switch handler {
	case 0:
		p := types.DefaultParams()
		p.EnableErc20 = false
		_, err = e.k.UpdateParams(e.ctx, &types.MsgUpdateParams{Authority: auth, Params: p})
	case 1:
		_, err = e.k.RegisterCoin(e.ctx, &types.MsgRegisterCoin{Authority: auth, Metadata: banktypes.Metadata{Base: "test", Display: "test", Name: "Test", Symbol: "TEST",
			DenomUnits: []*banktypes.DenomUnit{{Denom: "test", Exponent: 0}, {Denom: "TEST", Exponent: 18}}}})
	case 2:
		_, err = e.k.RegisterERC20(e.ctx, &types.MsgRegisterERC20{Authority: auth, Erc20Address: "0x00000000000000000000000000000000000000E2"})
	case 3:
		_, err = e.k.ToggleTokenConversion(e.ctx, &types.MsgToggleTokenConversion{Authority: auth, Token: "usdt"})
	default:
		_, err = e.k.UpdateDenomAlias(e.ctx, &types.MsgUpdateDenomAlias{Authority: auth, Denom: "usdt", Alias: "bsc0xbb"})
	}
	return err
}

// VerifC16Erc20: the five privileged erc20 handlers reject any authority other than the keeper's
// and change nothing (store, bank metadata, deployed contracts).
func VerifC16Erc20() {
	e := verifC16State()
	lens := []int{0, len(verifAuthority), len(verifAuthority) + 1}
	auth := rt.Str("authority", lens[rt.Choose("authority.len", len(lens))])
	rt.Assume(rt.Not(rt.StrEq(auth, verifAuthority)))
	before := e.changes()
	err := e.callPrivileged(rt.Choose("handler", 5), auth)
	rt.Cover("called")
	rt.Assert(err != nil, "foreign authority is rejected")
	rt.Assert(e.changes() == before, "rejected privileged message changes nothing")
}

// VerifC16Erc20Accepts: witness that each request does take effect for the governance authority.
func VerifC16Erc20Accepts() {
	e := verifC16State()
	before := e.changes()
	h := rt.Choose("handler", 5)
	err := e.callPrivileged(h, verifAuthority)
	rt.Assert(err == nil, "governance authority is accepted")
	rt.Assert(e.changes() > before, "accepted privileged message takes effect")
	rt.Cover("accepted")
}
