package keeper

import (
	sdkmath "cosmossdk.io/math"
	sdk "github.com/cosmos/cosmos-sdk/types"
	"github.com/ethereum/go-ethereum/common"

	"github.com/functionx/fx-core/v8/x/erc20/types"
	"github.com/functionx/fx-core/v8/zzverif/models"
	"github.com/functionx/fx-core/v8/zzverif/rt"
)

// VerifC19RefundOnce: an outbound IBC transfer started from the EVM that times out / is rejected
// is refunded to its sender in ERC-20 form exactly once: the first refund converts exactly the
// amount back and consumes the tracking record, a replayed refund (duplicate ack/timeout) changes
// nothing; a transfer without tracking record (not started from the EVM) is never converted.
func VerifC19RefundOnce() {
	e := verifNewErc20Env()
	denom := "usdt"
	e.k.AddTokenPair(e.ctx, types.TokenPair{Erc20Address: verifContract.Hex(), Denom: denom, Enabled: true, ContractOwner: types.OWNER_MODULE})
	e.evm.Contracts = append(e.evm.Contracts, verifContract)
	module := models.ModuleAddress(types.ModuleName)
	aHex := common.BytesToAddress(verifUserA)
	coinA, tokA, escrow := verifAmount("coin.A", 100), verifAmount("token.A", 100), verifAmount("escrow", 100)
	e.bank.SetBalance(verifUserA, denom, coinA)
	e.bank.SetBalance(module, denom, escrow)
	e.tok.SetBalance(verifContract, aHex, tokA.BigInt())
	amount := verifAmount("amount", 100)
	seq := rt.U64("sequence")
	tracked := rt.Bool("startedFromEvm")
	if tracked {
		e.k.SetIBCTransferRelation(e.ctx, "channel-0", seq)
	}
	rt.Cover("state-built")
	err := e.k.IbcRefund(e.ctx, "channel-0", seq, verifUserA, sdk.NewCoin(denom, amount))
	if err != nil {
		rt.Cover("refund-failed")
		return // rolled back with the enclosing IBC callback
	}
	c1 := e.bank.Balance(verifUserA, denom)
	t1 := sdkmath.NewIntFromBigInt(e.tok.BalanceOf(verifContract, aHex))
	if tracked {
		rt.Cover("refunded")
		rt.Assert(c1.Equal(coinA.Sub(amount)), "refund converts exactly the amount out of the sender's coins")
		rt.Assert(t1.Equal(tokA.Add(amount)), "refund credits exactly the amount as ERC-20 to the sender")
	} else {
		rt.Cover("untracked")
		rt.Assert(rt.And(c1.Equal(coinA), t1.Equal(tokA)), "a transfer not started from the EVM is not converted")
	}
	rt.Assert(!e.k.DeleteIBCTransferRelation(e.ctx, "channel-0", seq), "tracking record consumed")
	// replay
	err = e.k.IbcRefund(e.ctx, "channel-0", seq, verifUserA, sdk.NewCoin(denom, amount))
	rt.Assert(err == nil, "replayed refund is a no-op without error")
	rt.Assert(e.bank.Balance(verifUserA, denom).Equal(c1), "replayed refund leaves coins alone")
	rt.Assert(sdkmath.NewIntFromBigInt(e.tok.BalanceOf(verifContract, aHex)).Equal(t1), "replayed refund leaves tokens alone")
}
