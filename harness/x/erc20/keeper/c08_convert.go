package keeper

import (
	banktypes "github.com/cosmos/cosmos-sdk/x/bank/types"
	"math/big"

	sdkmath "cosmossdk.io/math"
	sdk "github.com/cosmos/cosmos-sdk/types"
	"github.com/ethereum/go-ethereum/common"

	fxtypes "github.com/functionx/fx-core/v8/types"
	"github.com/functionx/fx-core/v8/x/erc20/types"
	"github.com/functionx/fx-core/v8/zzverif/models"
	"github.com/functionx/fx-core/v8/zzverif/rt"
)

type verifErc20Env struct {
	ms   *models.MultiStore
	ctx  sdk.Context
	bank *models.Bank
	tok  *models.Erc20
	evm  *models.EVM
	k    Keeper
}

func verifNewErc20Env() *verifErc20Env {
	if sdk.GetConfig().GetBech32AccountAddrPrefix() != fxtypes.AddressPrefix {
		fxtypes.SetConfig(false)
	}
	ms := models.NewMultiStore(types.StoreKey)
	e := &verifErc20Env{ms: ms, bank: models.NewBank(ms), tok: models.NewErc20(ms), evm: models.NewEVM()}
	e.ctx = models.NewContext(e.ms, 10, 1700000000)
	e.k = Keeper{storeKey: models.NewStoreKey(types.StoreKey), cdc: models.NewCodec(nil), accountKeeper: models.Accounts{},
		bankKeeper: e.bank, evmKeeper: e.evm, evmErc20Keeper: e.tok,
		moduleAddress: common.BytesToAddress(models.ModuleAddress(types.ModuleName)), authority: verifAuthority}
	p := types.DefaultParams()
	if err := e.k.SetParams(e.ctx, &p); err != nil {
		panic(err)
	}
	return e
}

func verifAmount(name string, bits uint) sdkmath.Int {
	b := rt.BigInt(name)
	rt.Assume(rt.And(b.Sign() >= 0, b.Cmp(new(big.Int).Lsh(big.NewInt(1), bits)) < 0))
	return sdkmath.NewIntFromBigInt(b)
}

var (
	verifContract = common.HexToAddress("0x00000000000000000000000000000000000000c1")
	verifUserA    = sdk.AccAddress([]byte{0xa1, 1, 1, 1, 1, 1, 1, 1, 1, 1, 1, 1, 1, 1, 1, 1, 1, 1, 1, 1})
	verifUserB    = sdk.AccAddress([]byte{0xb2, 2, 2, 2, 2, 2, 2, 2, 2, 2, 2, 2, 2, 2, 2, 2, 2, 2, 2, 2})
)

// VerifC08ConvertStep: one ConvertCoin / ConvertERC20 on the real erc20 keeper over the bank and
// token-ledger models, for the three ownership kinds (module-owned pair, the native coin with its
// wrapper contract, externally-owned ERC-20). From any state in which the pair's books balance,
// a successful conversion moves exactly the requested amount from sender to receiver, changes
// nobody else, and leaves the books balanced.
func VerifC08ConvertStep() {
	e := verifNewErc20Env()
	kind := rt.Choose("pairKind", 3) // 0 module-owned coin pair, 1 native FX coin, 2 externally-owned erc20
	denom := "usdt"
	owner := types.OWNER_MODULE
	switch kind {
	case 1:
		denom = fxtypes.DefaultDenom
	case 2:
		owner = types.OWNER_EXTERNAL
	}
	e.k.AddTokenPair(e.ctx, types.TokenPair{Erc20Address: verifContract.Hex(), Denom: denom, Enabled: true, ContractOwner: owner})
	e.evm.Contracts = append(e.evm.Contracts, verifContract)
	module := models.ModuleAddress(types.ModuleName)
	moduleHex := common.BytesToAddress(module)
	aHex, bHex := common.BytesToAddress(verifUserA), common.BytesToAddress(verifUserB)

	// symbolic ledgers
	coinA, coinB := verifAmount("coin.A", 100), verifAmount("coin.B", 100)
	tokA, tokB := verifAmount("token.A", 100), verifAmount("token.B", 100)
	e.bank.SetBalance(verifUserA, denom, coinA)
	e.bank.SetBalance(verifUserB, denom, coinB)
	e.tok.SetBalance(verifContract, aHex, tokA.BigInt())
	e.tok.SetBalance(verifContract, bHex, tokB.BigInt())
	switch kind {
	case 0: // escrow(module) == token total supply
		e.bank.SetBalance(module, denom, tokA.Add(tokB))
	case 1: // escrow held by the wrapper contract == token total supply
		e.bank.SetBalance(verifContract.Bytes(), denom, tokA.Add(tokB))
	case 2: // tokens escrowed by the module == coin supply
		e.tok.SetBalance(verifContract, moduleHex, coinA.Add(coinB).BigInt())
	}
	amount := verifAmount("amount", 100)
	toCoin := rt.Bool("erc20ToCoin")
	recvKind := rt.Choose("receiver", 3) // the other user, the sender itself, the erc20 module's own (blocked) account
	selfReceive := recvKind == 1
	toModule := recvKind == 2
	e.bank.Blocked = append(e.bank.Blocked, module) // module accounts are on the bank's blocked list
	rt.Cover("state-built")

	var err error
	if toCoin {
		recv := verifUserB
		if selfReceive {
			recv = verifUserA
		} else if toModule {
			recv = module
		}
		_, err = e.k.ConvertERC20(e.ctx, &types.MsgConvertERC20{ContractAddress: verifContract.Hex(), Amount: amount, Receiver: recv.String(), Sender: aHex.Hex()})
	} else {
		recv := bHex
		if selfReceive {
			recv = aHex
		} else if toModule {
			recv = moduleHex
		}
		_, err = e.k.ConvertCoin(e.ctx, &types.MsgConvertCoin{Coin: sdk.NewCoin(denom, amount), Receiver: recv.Hex(), Sender: verifUserA.String()})
	}
	if err != nil {
		rt.Cover("refused")
		return // the enclosing transaction is rolled back by the SDK
	}
	rt.Cover("converted")
	cA, cB := e.bank.Balance(verifUserA, denom), e.bank.Balance(verifUserB, denom)
	tA := sdkmath.NewIntFromBigInt(e.tok.BalanceOf(verifContract, aHex))
	tB := sdkmath.NewIntFromBigInt(e.tok.BalanceOf(verifContract, bHex))
	if toModule {
		// the receiver is the escrow account itself: only the books are judged below
	} else if toCoin {
		rt.Assert(tA.Equal(tokA.Sub(amount)), "sender's tokens decrease by exactly the amount")
		if selfReceive {
			rt.Assert(cA.Equal(coinA.Add(amount)), "receiver's coins increase by exactly the amount")
			rt.Assert(rt.And(cB.Equal(coinB), tB.Equal(tokB)), "bystander untouched")
		} else {
			rt.Assert(cB.Equal(coinB.Add(amount)), "receiver's coins increase by exactly the amount")
			rt.Assert(rt.And(cA.Equal(coinA), tB.Equal(tokB)), "nothing else of the two users changes")
		}
	} else {
		rt.Assert(cA.Equal(coinA.Sub(amount)), "sender's coins decrease by exactly the amount")
		if selfReceive {
			rt.Assert(tA.Equal(tokA.Add(amount)), "receiver's tokens increase by exactly the amount")
			rt.Assert(rt.And(cB.Equal(coinB), tB.Equal(tokB)), "bystander untouched")
		} else {
			rt.Assert(tB.Equal(tokB.Add(amount)), "receiver's tokens increase by exactly the amount")
			rt.Assert(rt.And(tA.Equal(tokA), cB.Equal(coinB)), "nothing else of the two users changes")
		}
	}
	// books
	supplyTok := sdkmath.NewIntFromBigInt(e.tok.TotalSupply(verifContract))
	switch kind {
	case 0:
		rt.Assert(e.bank.Balance(module, denom).Equal(supplyTok), "module-owned pair: coins escrowed by the module == token total supply")
		rt.Assert(e.bank.Supply(denom).Equal(coinA.Add(coinB).Add(tokA).Add(tokB)), "coin supply unchanged")
	case 1:
		rt.Assert(e.bank.Balance(verifContract.Bytes(), denom).Equal(supplyTok), "native coin: coins held by the wrapper contract == token total supply")
		rt.Assert(e.bank.Balance(module, denom).IsZero(), "native coin: nothing left in the module account")
	case 2:
		rt.Assert(sdkmath.NewIntFromBigInt(e.tok.BalanceOf(verifContract, moduleHex)).Equal(e.bank.Supply(denom)), "external pair: tokens escrowed by the module == coin supply")
		rt.Assert(supplyTok.Equal(tokA.Add(tokB).Add(coinA).Add(coinB)), "token total supply unchanged")
	}
	rt.Assert(supplyTok.Equal(tA.Add(tB).Add(sdkmath.NewIntFromBigInt(e.tok.BalanceOf(verifContract, moduleHex)))), "token balances sum to total supply")
}

// VerifC08AliasIndex: one UpdateDenomAliases on a state with two registered coins (usdt with
// aliases a1, a2; fxusd with alias b1) whose alias index and bank metadata agree. Afterwards they
// still agree: an alias is in the index under a coin exactly when that coin's metadata lists it;
// a refused update changes nothing; the token-pair indexes are untouched.
func VerifC08AliasIndex() {
	e := verifNewErc20Env()
	coins := map[string][]string{"usdt": {"a1", "a2"}, "fxusd": {"b1"}}
	for _, d := range []string{"usdt", "fxusd"} {
		e.bank.SetDenomMetaData(e.ctx, banktypes.Metadata{Base: d, Display: d, Name: d, Symbol: d,
			DenomUnits: []*banktypes.DenomUnit{{Denom: d, Exponent: 0, Aliases: append([]string(nil), coins[d]...)}}})
		e.k.SetAliasesDenom(e.ctx, d, coins[d]...)
	}
	e.k.AddTokenPair(e.ctx, types.TokenPair{Erc20Address: verifContract.Hex(), Denom: "usdt", Enabled: true, ContractOwner: types.OWNER_MODULE})
	e.k.AddTokenPair(e.ctx, types.TokenPair{Erc20Address: "0x00000000000000000000000000000000000000C2", Denom: "fxusd", Enabled: true, ContractOwner: types.OWNER_MODULE})
	denom := []string{"usdt", "fxusd", "nocoin"}[rt.Choose("denom", 3)]
	universe := []string{"a1", "a2", "b1", "c1", "usdt"}
	alias := universe[rt.Choose("alias", len(universe))]
	rt.Cover("state-built")
	before := e.ms.Snapshot()
	_, err := e.k.UpdateDenomAliases(e.ctx, denom, alias)
	if err != nil {
		rt.Cover("refused")
		rt.Assert(e.ms.Equal(before), "a refused alias update changes nothing")
	} else {
		rt.Cover("updated")
	}
	for _, x := range universe {
		idx, inIndex := e.k.GetAliasDenom(e.ctx, x)
		listed := ""
		for _, d := range []string{"usdt", "fxusd"} {
			md, ok := e.bank.GetDenomMetaData(e.ctx, d)
			if !ok || len(md.DenomUnits) == 0 {
				rt.Assert(false, "registered coins keep their metadata")
				continue
			}
			n := 0
			for _, a := range md.DenomUnits[0].Aliases {
				if a == x {
					n++
				}
			}
			rt.Assert(n <= 1, "no alias is listed twice")
			if n > 0 {
				rt.Assert(listed == "", "no alias is listed under two coins")
				listed = d
			}
		}
		rt.Assert(inIndex == (listed != "") && (!inIndex || idx == listed), "alias index and metadata describe the same aliases")
	}
	p1, ok1 := e.k.GetTokenPair(e.ctx, "usdt")
	p2, ok2 := e.k.GetTokenPair(e.ctx, verifContract.Hex())
	rt.Assert(ok1 && ok2 && p1.Erc20Address == p2.Erc20Address && p1.Denom == "usdt" && p2.Denom == "usdt", "denomination and contract indexes still describe the same pair")
}
