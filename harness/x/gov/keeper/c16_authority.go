package keeper

import (
	"encoding/hex"

	storetypes "cosmossdk.io/store/types"

	"github.com/functionx/fx-core/v8/x/gov/types"
	"github.com/functionx/fx-core/v8/zzverif/models"
	"github.com/functionx/fx-core/v8/zzverif/rt"
)

const verifAuthority = "fx10d07y265gmmuvt4z0w9aw880jnsr700jqjzsmz"

func verifGovKeeper() (*models.MultiStore, *Keeper) {
	ms := models.NewMultiStore("gov", "eth")
	k := &Keeper{storeKey: models.NewStoreKey("gov"), cdc: models.NewCodec(nil), authority: verifAuthority,
		storeKeys: map[string]*storetypes.KVStoreKey{"eth": storetypes.NewKVStoreKey("eth"), "gov": storetypes.NewKVStoreKey("gov")}}
	return ms, k
}

// VerifC16Gov: UpdateStore, UpdateSwitchParams and UpdateCustomParams reject any authority other
// than the keeper's and write nothing.
func VerifC16Gov() {
	ms, k := verifGovKeeper()
	ctx := models.NewContext(ms, 10, 1700000000)
	lens := []int{0, len(verifAuthority), len(verifAuthority) + 1}
	auth := rt.Str("authority", lens[rt.Choose("authority.len", len(lens))])
	rt.Assume(rt.Not(rt.StrEq(auth, verifAuthority)))
	before := ms.TotalWrites()
	srv := msgServer{Keeper: k}
	var err error
	switch rt.Choose("handler", 3) {
	case 0:
		_, err = srv.UpdateStore(ctx, &types.MsgUpdateStore{Authority: auth, UpdateStores: []types.UpdateStore{{Space: "eth", Key: "01", OldValue: "", Value: "02"}}})
	case 1:
		_, err = srv.UpdateSwitchParams(ctx, &types.MsgUpdateSwitchParams{Authority: auth})
	default:
		_, err = srv.UpdateCustomParams(ctx, &types.MsgUpdateCustomParams{Authority: auth, MsgUrl: "/x"})
	}
	rt.Cover("called")
	rt.Assert(err != nil, "foreign authority is rejected")
	rt.Assert(ms.TotalWrites() == before, "rejected privileged message writes nothing")
}

// VerifC16UpdateStoreCAS: with the governance authority a raw store update is applied only if the
// stored value equals the stated old value, and then exactly the named key changes.
func VerifC16UpdateStoreCAS() {
	ms, k := verifGovKeeper()
	ctx := models.NewContext(ms, 10, 1700000000)
	key := rt.Bytes("key", 2)
	other := []byte{0x7f, 0x01, 0x02}
	stored := rt.Bytes("stored", 1)
	old := rt.Bytes("old", 1)
	val := rt.Bytes("new", 1)
	present := rt.Bool("present")
	oldGiven := rt.Bool("oldGiven")
	if present {
		ms.Store("eth").Set(key, stored)
	}
	ms.Store("eth").Set(other, []byte{9})
	oldHex := ""
	if oldGiven {
		oldHex = hex.EncodeToString(old)
	}
	srv := msgServer{Keeper: k}
	_, err := srv.UpdateStore(ctx, &types.MsgUpdateStore{Authority: verifAuthority,
		UpdateStores: []types.UpdateStore{{Space: "eth", Key: hex.EncodeToString(key), OldValue: oldHex, Value: hex.EncodeToString(val)}}})
	matches := rt.Or(rt.And(present, oldGiven, rt.BytesEq(stored, old)), rt.And(!present, !oldGiven))
	got := ms.Store("eth").Get(key)
	if err == nil {
		rt.Cover("applied")
		rt.Assert(matches, "raw store update applied only when the stored value equals the stated old value")
		rt.Assert(rt.BytesEq(got, val), "named key holds the new value")
	} else {
		rt.Cover("refused")
		rt.Assert(rt.Not(matches), "raw store update refused only on a mismatch")
		if present {
			rt.Assert(rt.BytesEq(got, stored), "refused update leaves the key alone")
		} else {
			rt.Assert(got == nil, "refused update leaves the key absent")
		}
	}
	rt.Assert(rt.BytesEq(ms.Store("eth").Get(other), []byte{9}), "other keys untouched")
}

// VerifC16UpdateStoreSeq: a raw store update with two entries (possibly naming the same key)
// applies each entry only if the value current at that point equals the entry's stated old value:
// the second entry is judged against the store as the first entry left it.
func VerifC16UpdateStoreSeq() {
	ms, k := verifGovKeeper()
	ctx := models.NewContext(ms, 10, 1700000000)
	keys := [][]byte{{0x11, 0x01}, {0x11, 0x02}}
	storedA, storedB := rt.Bytes("storedA", 1), rt.Bytes("storedB", 1)
	ms.Store("eth").Set(keys[0], storedA)
	ms.Store("eth").Set(keys[1], storedB)
	k2 := rt.Choose("secondKey", 2) // the first entry names key 0
	old1, val1 := rt.Bytes("old1", 1), rt.Bytes("new1", 1)
	old2, val2 := rt.Bytes("old2", 1), rt.Bytes("new2", 1)
	entry := func(key, old, val []byte) types.UpdateStore {
		return types.UpdateStore{Space: "eth", Key: hex.EncodeToString(key), OldValue: hex.EncodeToString(old), Value: hex.EncodeToString(val)}
	}
	srv := msgServer{Keeper: k}
	_, err := srv.UpdateStore(ctx, &types.MsgUpdateStore{Authority: verifAuthority,
		UpdateStores: []types.UpdateStore{entry(keys[0], old1, val1), entry(keys[k2], old2, val2)}})
	ok1 := rt.BytesEq(storedA, old1)
	cur2 := storedB
	if k2 == 0 {
		cur2 = val1
	}
	ok2 := rt.BytesEq(cur2, old2)
	if err == nil {
		rt.Cover("applied")
		rt.Assert(rt.And(ok1, ok2), "every entry applied only when the value current at that point equals its stated old value")
		rt.Assert(rt.BytesEq(ms.Store("eth").Get(keys[k2]), val2), "second entry's key holds its new value")
		if k2 != 0 {
			rt.Assert(rt.BytesEq(ms.Store("eth").Get(keys[0]), val1), "first entry's key holds its new value")
		}
	} else {
		rt.Cover("refused")
		rt.Assert(rt.Not(rt.And(ok1, ok2)), "refused only on a mismatch")
	}
}
