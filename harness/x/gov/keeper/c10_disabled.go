package keeper

import (
	"encoding/hex"

	"github.com/ethereum/go-ethereum/common"

	"github.com/functionx/fx-core/v8/zzverif/rt"
)

// verifEntryNames reports (branch-free) whether a governance list entry names the precompile
// address (42 bytes: 0x + 40 hex digits, any letter case) or that address followed by '/' and the
// 8 hex digits of the method id. Reference semantics written over decoded bytes, independently of
// the string lower-casing the implementation uses.
func verifEntryNames(entry string, addr common.Address, methodID []byte) bool {
	if len(entry) != 42 && len(entry) != 51 {
		return false
	}
	if !rt.And(entry[0] == '0', rt.Or(entry[1] == 'x', entry[1] == 'X')) {
		return false
	}
	a, err := hex.DecodeString(entry[2:42])
	if err != nil {
		return false
	}
	if len(entry) == 42 {
		return rt.BytesEq(a, addr[:])
	}
	m, err := hex.DecodeString(entry[43:51])
	if err != nil {
		return false
	}
	return rt.And(entry[42] == '/', rt.BytesEq(a, addr[:]), rt.BytesEq(m, methodID))
}

// VerifC10DisabledList: CheckContractAddressIsDisabled refuses exactly when some entry of the
// governance list names the precompile address or the address/method pair.
func VerifC10DisabledList() {
	var addr common.Address
	copy(addr[:], rt.Bytes("precompileAddress", 20))
	methodID := rt.Bytes("methodId", 4)
	n := rt.Choose("entries", 3)
	var list []string
	named := false
	for i := 0; i < n; i++ {
		l := []int{42, 51, 41}[rt.Choose("entry.len", 3)]
		e := rt.Str("entry", l)
		rt.Assume(rt.CharsIn(e, verifASCII())) // list entries are ASCII text (multi-byte runes are not modelled)
		list = append(list, e)
		if verifEntryNames(e, addr, methodID) {
			named = true
		}
	}
	err := CheckContractAddressIsDisabled(list, addr, methodID)
	if err != nil {
		rt.Cover("disabled")
		rt.Assert(named, "refused only if the list names the address or the address/method pair")
	} else {
		rt.Cover("enabled")
		rt.Assert(!named, "a listed address or method cannot execute")
	}
}

func verifASCII() string {
	b := make([]byte, 128)
	for i := range b {
		b[i] = byte(i)
	}
	return string(b)
}

// VerifC10DisabledListMulti: lists of up to three well-formed entries that may name the same
// precompile several times (the whole address, one method, another method, in any order) or
// another precompile. A call is refused exactly when some entry names its address or its
// address/method pair - every entry counts, not only the last one for an address.
func VerifC10DisabledListMulti() {
	addr := common.HexToAddress("0x0000000000000000000000000000000000001003")
	other := common.HexToAddress("0x0000000000000000000000000000000000001004")
	mA, mB := []byte{0xaa, 0xbb, 0xcc, 0x01}, []byte{0xaa, 0xbb, 0xcc, 0x02}
	forms := []string{addr.Hex(), addr.Hex() + "/" + hex.EncodeToString(mA), addr.Hex() + "/" + hex.EncodeToString(mB), other.Hex(), other.Hex() + "/" + hex.EncodeToString(mA)}
	n := rt.Choose("entries", 4)
	var list []string
	var picked []int
	for i := 0; i < n; i++ {
		k := rt.Choose("entry.form", len(forms))
		picked = append(picked, k)
		list = append(list, forms[k])
	}
	method, mIdx := mA, 1
	if rt.Bool("callsMethodB") {
		method, mIdx = mB, 2
	}
	named := false
	for _, k := range picked {
		if k == 0 || k == mIdx {
			named = true
		}
	}
	err := CheckContractAddressIsDisabled(list, addr, method)
	if err != nil {
		rt.Cover("disabled")
	} else {
		rt.Cover("enabled")
	}
	rt.Assert((err != nil) == named, "a call is refused exactly when some list entry names its address or its address/method pair")
}
