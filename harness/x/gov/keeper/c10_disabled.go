package keeper

import (
	"encoding/hex"

	"github.com/ethereum/go-ethereum/common"

	"github.com/functionx/fx-core/v8/zzverif/rt"
)

// verifEntryNames reports (branch-free) whether a governance list entry names the precompile
// address (42 bytes: 0x + 40 hex digits, any letter case) or that address followed by '/' and the
// 8 hex digits of the method id. Reference semantics written over decoded bytes, independently of
// the string lower-casing the implementation uses.
func verifEntryNames(entry string, addr common.Address, methodID []byte) bool {
	if len(entry) != 42 && len(entry) != 51 {
		return false
	}
	if !rt.And(entry[0] == '0', rt.Or(entry[1] == 'x', entry[1] == 'X')) {
		return false
	}
	a, err := hex.DecodeString(entry[2:42])
	if err != nil {
		return false
	}
	if len(entry) == 42 {
		return rt.BytesEq(a, addr[:])
	}
	m, err := hex.DecodeString(entry[43:51])
	if err != nil {
		return false
	}
	return rt.And(entry[42] == '/', rt.BytesEq(a, addr[:]), rt.BytesEq(m, methodID))
}

// VerifC10DisabledList: CheckContractAddressIsDisabled refuses exactly when some entry of the
// governance list names the precompile address or the address/method pair.
func VerifC10DisabledList() {
	var addr common.Address
	copy(addr[:], rt.Bytes("precompileAddress", 20))
	methodID := rt.Bytes("methodId", 4)
	n := rt.Choose("entries", 3)
	var list []string
	named := false
	for i := 0; i < n; i++ {
		l := []int{42, 51, 41}[rt.Choose("entry.len", 3)]
		e := rt.Str("entry", l)
		rt.Assume(rt.CharsIn(e, verifASCII())) // list entries are ASCII text (multi-byte runes are not modelled)
		list = append(list, e)
		if verifEntryNames(e, addr, methodID) {
			named = true
		}
	}
	err := CheckContractAddressIsDisabled(list, addr, methodID)
	if err != nil {
		rt.Cover("disabled")
		rt.Assert(named, "refused only if the list names the address or the address/method pair")
	} else {
		rt.Cover("enabled")
		rt.Assert(!named, "a listed address or method cannot execute")
	}
}

func verifASCII() string {
	b := make([]byte, 128)
	for i := range b {
		b[i] = byte(i)
	}
	return string(b)
}
