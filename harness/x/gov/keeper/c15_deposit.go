package keeper

import (
	"context"
	"time"

	addresscodec "cosmossdk.io/core/address"

	"cosmossdk.io/collections"
	sdkmath "cosmossdk.io/math"
	codectypes "github.com/cosmos/cosmos-sdk/codec/types"
	sdk "github.com/cosmos/cosmos-sdk/types"
	distributiontypes "github.com/cosmos/cosmos-sdk/x/distribution/types"
	govkeeper "github.com/cosmos/cosmos-sdk/x/gov/keeper"
	govtypes "github.com/cosmos/cosmos-sdk/x/gov/types"
	govv1 "github.com/cosmos/cosmos-sdk/x/gov/types/v1"

	fxtypes "github.com/functionx/fx-core/v8/types"
	"github.com/functionx/fx-core/v8/x/gov/types"
	"github.com/functionx/fx-core/v8/zzverif/models"
	"github.com/functionx/fx-core/v8/zzverif/rt"
)

func verifC15Keeper() (*models.MultiStore, sdk.Context, *Keeper) {
	if sdk.GetConfig().GetBech32AccountAddrPrefix() != fxtypes.AddressPrefix {
		fxtypes.SetConfig(false)
	}
	ms := models.NewMultiStore("gov")
	ctx := models.NewContext(ms, 10, 1700000000)
	cdc := models.NewCodec(nil)
	sb := collections.NewSchemaBuilder(models.NewStoreService("gov"))
	k := &Keeper{storeKey: models.NewStoreKey("gov"), cdc: cdc, authority: verifAuthority,
		CustomerParams: collections.NewMap(sb, types.CustomParamsKey, "customParams", collections.StringKey, models.CollValue[types.CustomParams](cdc))}
	if _, err := sb.Build(); err != nil {
		panic(err)
	}
	return ms, ctx, k
}

func verifAny(m sdk.Msg) *codectypes.Any {
	a, err := codectypes.NewAnyWithValue(m)
	if err != nil {
		panic(err)
	}
	return a
}

// VerifC15PerTypeRules: the deposit threshold, voting period and quorum that apply to a proposal
// are the ones configured for the type of its messages. For a community-pool spend with a
// configured deposit ratio the minimum deposit is max(default, ratio * requested amount); for a
// type with custom parameters the custom voting period and quorum are used; other types get the
// defaults.
func VerifC15PerTypeRules() {
	_, ctx, k := verifC15Keeper()
	egfURL := sdk.MsgTypeURL(&distributiontypes.MsgCommunityPoolSpend{})
	customPeriod := 3 * time.Hour
	if err := k.CustomerParams.Set(ctx, egfURL, types.CustomParams{DepositRatio: "0.1", VotingPeriod: &customPeriod, Quorum: "0.25"}); err != nil {
		panic(err)
	}
	rt.Cover("configured")
	defaultMin := sdk.NewCoins(sdk.NewCoin(fxtypes.DefaultDenom, sdkmath.NewInt(1000)))
	defaultPeriod := 14 * 24 * time.Hour
	units := rt.Choose("requested", 4) // requested amount in units of 5000
	requested := sdkmath.NewInt(int64(units) * 5000)
	var msgs []*codectypes.Any
	kind := rt.Choose("proposalKind", 3)
	switch kind {
	case 0: // community-pool spend
		msgs = []*codectypes.Any{verifAny(&distributiontypes.MsgCommunityPoolSpend{Authority: verifAuthority, Recipient: verifAuthority, Amount: sdk.NewCoins(sdk.NewCoin(fxtypes.DefaultDenom, requested))})}
	case 1: // another type, without custom parameters
		msgs = []*codectypes.Any{verifAny(&types.MsgUpdateSwitchParams{Authority: verifAuthority})}
	default: // text proposal
	}
	proposal := govv1.Proposal{Id: 1, Messages: msgs, Status: govv1.StatusDepositPeriod}
	min, err := k.GetMinDepositAmountFromProposalMsgs(ctx, defaultMin, proposal)
	if err != nil {
		rt.Assert(false, "the minimum deposit of a well-formed proposal can be computed")
		return
	}
	period := k.GetCustomMsgVotingPeriod(ctx, &defaultPeriod, proposal)
	quorum := k.GetCustomMsgQuorum(ctx, "0.4", proposal)
	if kind == 0 && units > 0 {
		rt.Cover("community-pool-spend")
		want := requested.QuoRaw(10)
		if want.LT(sdkmath.NewInt(1000)) {
			want = sdkmath.NewInt(1000)
		}
		rt.Assert(min.AmountOf(fxtypes.DefaultDenom).Equal(want), "a community-pool spend needs max(default, configured share of the requested amount) as deposit")
		rt.Assert(*period == customPeriod, "a proposal is tallied after the voting period configured for its message type")
		rt.Assert(quorum == "0.25", "a proposal is tallied with the quorum configured for its message type")
	} else if kind != 0 {
		rt.Cover("default-rules")
		rt.Assert(min.Equal(defaultMin), "a type without custom parameters needs the default deposit")
		rt.Assert(*period == defaultPeriod && quorum == "0.4", "a type without custom parameters uses the default voting period and quorum")
	}
}

type verifC15Accounts struct{}

func (verifC15Accounts) AddressCodec() addresscodec.Codec                              { return verifC15AddrCodec{} }
func (verifC15Accounts) GetAccount(ctx context.Context, a sdk.AccAddress) sdk.AccountI { return nil }
func (verifC15Accounts) GetModuleAddress(name string) sdk.AccAddress {
	return models.ModuleAddress(name)
}
func (verifC15Accounts) GetModuleAccount(ctx context.Context, name string) sdk.ModuleAccountI {
	return nil
}
func (verifC15Accounts) SetModuleAccount(context.Context, sdk.ModuleAccountI) {}

type verifC15AddrCodec struct{}

func (verifC15AddrCodec) StringToBytes(s string) ([]byte, error) { return sdk.AccAddressFromBech32(s) }
func (verifC15AddrCodec) BytesToString(b []byte) (string, error) {
	return sdk.AccAddress(b).String(), nil
}

// verifC15Full builds the SDK gov keeper with its own constructor (its collections run from
// source over the model store) behind the fx keeper, with the bank model.
func verifC15Full() (*models.MultiStore, sdk.Context, *Keeper, *models.Bank) {
	ms, ctx, k := verifC15Keeper()
	bank := models.NewBank(ms)
	cdc := models.NewFullCodec(func(reg codectypes.InterfaceRegistry) {
		govv1.RegisterInterfaces(reg)
		distributiontypes.RegisterInterfaces(reg)
		types.RegisterInterfaces(reg)
	})
	k.Keeper = govkeeper.NewKeeper(cdc, models.NewStoreService("gov"), verifC15Accounts{}, bank, nil, nil, nil, govtypes.DefaultConfig(), verifAuthority)
	k.bankKeeper = bank
	k.authKeeper = verifC15Accounts{}
	return ms, ctx, k, bank
}

func verifC15Amount(name string) sdkmath.Int {
	b := rt.BigInt(name)
	rt.Assume(rt.And(b.Sign() >= 0, b.BitLen() <= 64))
	return sdkmath.NewIntFromBigInt(b)
}

// VerifC15AddDeposit: one deposit on a proposal in its deposit period (a community-pool spend
// with a configured deposit share, or another message type), from a state in which the module
// account holds exactly the recorded deposits. Afterwards the module account, the proposal's
// total and the depositor's record have all grown by exactly the deposit; the proposal enters
// voting exactly when the total reaches the minimum applicable to its message type, with the
// voting period configured for that type, and moves from the inactive to the active queue.
func VerifC15AddDeposit() {
	_, ctx, k, bank := verifC15Full()
	module := models.ModuleAddress(govtypes.ModuleName)
	denom := fxtypes.DefaultDenom
	egfURL := sdk.MsgTypeURL(&distributiontypes.MsgCommunityPoolSpend{})
	customPeriod := 3 * time.Hour
	if err := k.CustomerParams.Set(ctx, egfURL, types.CustomParams{DepositRatio: "0.1", VotingPeriod: &customPeriod, Quorum: "0.25"}); err != nil {
		panic(err)
	}
	params := govv1.DefaultParams()
	params.MinDeposit = sdk.NewCoins(sdk.NewCoin(denom, sdkmath.NewInt(1000)))
	params.MinDepositRatio = "0"
	defaultPeriod := 14 * 24 * time.Hour
	params.VotingPeriod = &defaultPeriod
	if err := k.Params.Set(ctx, params); err != nil {
		panic(err)
	}
	egf := rt.Bool("communityPoolSpend")
	requested := sdkmath.NewInt(int64(rt.Choose("requestedUnits", 3)) * 20000) // 0, 20000, 40000 -> share 0, 2000, 4000
	var msgs []*codectypes.Any
	if egf {
		msgs = []*codectypes.Any{verifAny(&distributiontypes.MsgCommunityPoolSpend{Authority: verifAuthority, Recipient: verifAuthority, Amount: sdk.NewCoins(sdk.NewCoin(denom, requested))})}
	} else {
		msgs = []*codectypes.Any{verifAny(&types.MsgUpdateSwitchParams{Authority: verifAuthority})}
	}
	a := sdk.AccAddress([]byte{0xa1, 1, 1, 1, 1, 1, 1, 1, 1, 1, 1, 1, 1, 1, 1, 1, 1, 1, 1, 1})
	b := sdk.AccAddress([]byte{0xb2, 2, 2, 2, 2, 2, 2, 2, 2, 2, 2, 2, 2, 2, 2, 2, 2, 2, 2, 2})
	t0 := verifC15Amount("recordedDeposit.A")
	rt.Assume(t0.IsPositive())
	depositEnd := ctx.BlockTime().Add(48 * time.Hour)
	submit := ctx.BlockTime().Add(-time.Hour)
	proposal := govv1.Proposal{Id: 1, Messages: msgs, Status: govv1.StatusDepositPeriod, TotalDeposit: sdk.NewCoins(sdk.NewCoin(denom, t0)), SubmitTime: &submit, DepositEndTime: &depositEnd, Title: "t", Summary: "s", Proposer: a.String()}
	if k.SetProposal(ctx, proposal) != nil || k.SetDeposit(ctx, govv1.NewDeposit(1, a, sdk.NewCoins(sdk.NewCoin(denom, t0)))) != nil ||
		k.InactiveProposalsQueue.Set(ctx, collections.Join(depositEnd, uint64(1)), 1) != nil {
		panic("harness: cannot build state")
	}
	bank.SetBalance(module, denom, t0) // the module account holds exactly the recorded deposits
	who := a
	if rt.Bool("newDepositor") {
		who = b
	}
	wallet := verifC15Amount("depositor.wallet")
	bank.SetBalance(who, denom, wallet)
	x := verifC15Amount("deposit")
	rt.Assume(x.IsPositive())
	// the applicable minimum
	min := sdkmath.NewInt(1000)
	period := defaultPeriod
	if egf {
		period = customPeriod
		if share := requested.QuoRaw(10); share.GT(min) {
			min = share
		}
	}
	rt.Cover("state-built")

	activated, err := k.AddDeposit(ctx, 1, who, sdk.NewCoins(sdk.NewCoin(denom, x)))
	if err != nil {
		rt.Cover("refused")
		return
	}
	rt.Cover("deposited")
	rt.Assert(bank.Balance(module, denom).Equal(t0.Add(x)), "the module account grows by exactly the deposit (holds exactly the recorded deposits)")
	rt.Assert(bank.Balance(who, denom).Equal(wallet.Sub(x)), "the depositor pays exactly the deposit")
	got, gerr := k.Proposals.Get(ctx, 1)
	if gerr != nil {
		rt.Assert(false, "the proposal is still stored")
		return
	}
	rt.Assert(sdk.NewCoins(got.TotalDeposit...).AmountOf(denom).Equal(t0.Add(x)), "the proposal's total deposit grows by exactly the deposit")
	recA, errA := k.Deposits.Get(ctx, collections.Join(uint64(1), a))
	recB, errB := k.Deposits.Get(ctx, collections.Join(uint64(1), b))
	if who.Equals(a) {
		rt.Assert(errA == nil && errB != nil && sdk.NewCoins(recA.Amount...).AmountOf(denom).Equal(t0.Add(x)), "an existing depositor's record grows by exactly the deposit")
	} else {
		rt.Assert(errA == nil && errB == nil && sdk.NewCoins(recA.Amount...).AmountOf(denom).Equal(t0) && sdk.NewCoins(recB.Amount...).AmountOf(denom).Equal(x), "a new depositor gets a record of exactly the deposit; others are unchanged")
	}
	reached := t0.Add(x).GTE(min)
	rt.Assert(activated == reached, "the proposal enters voting exactly when its total deposit reaches the minimum applicable to its message type")
	inactive, _ := k.InactiveProposalsQueue.Has(ctx, collections.Join(depositEnd, uint64(1)))
	if activated {
		rt.Cover("activated")
		rt.Assert(got.Status == govv1.StatusVotingPeriod && got.VotingStartTime != nil && got.VotingEndTime != nil, "an activated proposal is in its voting period")
		if got.VotingEndTime != nil {
			rt.Assert(got.VotingEndTime.Equal(ctx.BlockTime().Add(period)), "the voting period is the one configured for the proposal's message type")
			active, _ := k.ActiveProposalsQueue.Has(ctx, collections.Join(*got.VotingEndTime, uint64(1)))
			rt.Assert(active && !inactive, "an activated proposal moved from the inactive to the active queue")
		}
	} else {
		rt.Cover("still-collecting")
		rt.Assert(got.Status == govv1.StatusDepositPeriod && inactive, "a proposal below the minimum stays in its deposit period and in the inactive queue")
	}
}

// VerifC15OneMessageType: a list of 0..3 proposal messages drawn from three message types is
// accepted exactly when all of them are of one type.
func VerifC15OneMessageType() {
	n := rt.Choose("messages", 4)
	var msgs []sdk.Msg
	kinds := make([]int, 0, 3)
	for i := 0; i < n; i++ {
		kd := rt.Choose("kind", 3)
		kinds = append(kinds, kd)
		switch kd {
		case 0:
			msgs = append(msgs, &types.MsgUpdateSwitchParams{Authority: verifAuthority})
		case 1:
			msgs = append(msgs, &types.MsgUpdateStore{Authority: verifAuthority})
		default:
			msgs = append(msgs, &distributiontypes.MsgCommunityPoolSpend{Authority: verifAuthority})
		}
	}
	same := true
	for _, kd := range kinds {
		if kd != kinds[0] {
			same = false
		}
	}
	err := checkProposalMsgs(msgs)
	if err == nil {
		rt.Cover("accepted")
	} else {
		rt.Cover("refused")
	}
	rt.Assert((err == nil) == same, "a proposal is accepted exactly when all of its messages are of one type")
}

// VerifC15SubmitActivation: MsgSubmitProposal of a text proposal (no messages, free-form
// metadata) with a symbolic initial deposit, under a non-zero or zero minimum-initial-deposit
// ratio. The proposal is accepted only with at least ratio x minimum as initial deposit, and it
// enters voting at submission only if the initial deposit alone reaches the full minimum deposit;
// the module account receives exactly the initial deposit.
func VerifC15SubmitActivation() {
	_, ctx, k, bank := verifC15Full()
	module := models.ModuleAddress(govtypes.ModuleName)
	denom := fxtypes.DefaultDenom
	params := govv1.DefaultParams()
	params.MinDeposit = sdk.NewCoins(sdk.NewCoin(denom, sdkmath.NewInt(10000)))
	params.MinDepositRatio = "0"
	withRatio := rt.Bool("minInitialDepositRatioSet")
	params.MinInitialDepositRatio = "0"
	if withRatio {
		params.MinInitialDepositRatio = "0.5"
	}
	if err := k.Params.Set(ctx, params); err != nil {
		panic(err)
	}
	proposer := sdk.AccAddress([]byte{0xa1, 1, 1, 1, 1, 1, 1, 1, 1, 1, 1, 1, 1, 1, 1, 1, 1, 1, 1, 1})
	wallet := verifC15Amount("proposer.wallet")
	bank.SetBalance(proposer, denom, wallet)
	x := verifC15Amount("initialDeposit")
	rt.Assume(x.IsPositive())
	rt.Cover("state-built")
	srv := msgServer{Keeper: k}
	resp, err := srv.SubmitProposal(ctx, &govv1.MsgSubmitProposal{Title: "t", Summary: "s", Metadata: "plain text", Proposer: proposer.String(),
		InitialDeposit: sdk.NewCoins(sdk.NewCoin(denom, x))})
	if err != nil {
		rt.Cover("refused")
		return
	}
	rt.Cover("submitted")
	if withRatio {
		rt.Assert(x.GTE(sdkmath.NewInt(5000)), "a proposal is accepted only with the configured share of the minimum deposit as initial deposit")
	}
	rt.Assert(bank.Balance(module, denom).Equal(x), "the module account holds exactly the initial deposit")
	got, gerr := k.Proposals.Get(ctx, resp.ProposalId)
	if gerr != nil {
		rt.Assert(false, "the submitted proposal is stored")
		return
	}
	inVoting := got.Status == govv1.StatusVotingPeriod
	rt.Assert(inVoting == x.GTE(sdkmath.NewInt(10000)), "a proposal enters voting at submission exactly when its initial deposit reaches the full minimum deposit")
	if inVoting {
		rt.Cover("activated")
	} else {
		rt.Cover("collecting")
	}
}
