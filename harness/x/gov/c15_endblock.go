package gov

import (
	"context"
	"time"

	"cosmossdk.io/collections"
	addresscodec "cosmossdk.io/core/address"
	sdkmath "cosmossdk.io/math"
	storetypes "cosmossdk.io/store/types"
	"github.com/cosmos/cosmos-sdk/baseapp"
	codectypes "github.com/cosmos/cosmos-sdk/codec/types"
	sdk "github.com/cosmos/cosmos-sdk/types"
	distributiontypes "github.com/cosmos/cosmos-sdk/x/distribution/types"
	govkeeper "github.com/cosmos/cosmos-sdk/x/gov/keeper"
	govtypes "github.com/cosmos/cosmos-sdk/x/gov/types"
	govv1 "github.com/cosmos/cosmos-sdk/x/gov/types/v1"
	stakingtypes "github.com/cosmos/cosmos-sdk/x/staking/types"

	fxtypes "github.com/functionx/fx-core/v8/types"
	"github.com/functionx/fx-core/v8/x/gov/keeper"
	"github.com/functionx/fx-core/v8/x/gov/types"
	"github.com/functionx/fx-core/v8/zzverif/models"
	"github.com/functionx/fx-core/v8/zzverif/rt"
)

const verifAuthority = "fx10d07y265gmmuvt4z0w9aw880jnsr700jqjzsmz"

type verifAccounts struct{}

func (verifAccounts) AddressCodec() addresscodec.Codec                                  { return verifAddrCodec{} }
func (verifAccounts) GetAccount(ctx context.Context, a sdk.AccAddress) sdk.AccountI     { return nil }
func (verifAccounts) GetModuleAddress(name string) sdk.AccAddress                       { return models.ModuleAddress(name) }
func (verifAccounts) GetModuleAccount(ctx context.Context, n string) sdk.ModuleAccountI { return nil }
func (verifAccounts) SetModuleAccount(context.Context, sdk.ModuleAccountI)              {}

type verifAddrCodec struct{}

func (verifAddrCodec) StringToBytes(s string) ([]byte, error) { return sdk.AccAddressFromBech32(s) }
func (verifAddrCodec) BytesToString(b []byte) (string, error) { return sdk.AccAddress(b).String(), nil }

type verifValCodec struct{}

func (verifValCodec) StringToBytes(s string) ([]byte, error) { return sdk.ValAddressFromBech32(s) }
func (verifValCodec) BytesToString(b []byte) (string, error) { return sdk.ValAddress(b).String(), nil }

// verifStaking: one bonded validator with 100 tokens / 100 shares; the voter delegates voterShares.
type verifStaking struct {
	val         sdk.ValAddress
	voter       sdk.AccAddress
	voterShares int64
}

func (s verifStaking) ValidatorAddressCodec() addresscodec.Codec { return verifValCodec{} }
func (s verifStaking) IterateBondedValidatorsByPower(ctx context.Context, fn func(int64, stakingtypes.ValidatorI) bool) error {
	fn(0, stakingtypes.Validator{OperatorAddress: s.val.String(), Status: stakingtypes.Bonded, Tokens: sdkmath.NewInt(100), DelegatorShares: sdkmath.LegacyNewDec(100)})
	return nil
}
func (s verifStaking) TotalBondedTokens(context.Context) (sdkmath.Int, error) {
	return sdkmath.NewInt(100), nil
}
func (s verifStaking) IterateDelegations(ctx context.Context, d sdk.AccAddress, fn func(int64, stakingtypes.DelegationI) bool) error {
	if d.Equals(s.voter) && s.voterShares > 0 {
		fn(0, stakingtypes.Delegation{DelegatorAddress: d.String(), ValidatorAddress: s.val.String(), Shares: sdkmath.LegacyNewDec(s.voterShares)})
	}
	return nil
}

// verifRouter: every proposal message writes a marker into the gov store; the message whose
// authority field is "fail" fails after writing.
type verifRouter struct{ key storetypes.StoreKey }

func (r verifRouter) Handler(msg sdk.Msg) baseapp.MsgServiceHandler {
	return func(ctx sdk.Context, req sdk.Msg) (*sdk.Result, error) {
		m := req.(*types.MsgUpdateSwitchParams)
		ctx.KVStore(r.key).Set([]byte{0x7e, byte(len(m.Params.DisableMsgTypes))}, []byte{1})
		if len(m.Params.DisablePrecompiles) > 0 {
			return nil, govtypes.ErrInvalidProposalMsg
		}
		return &sdk.Result{}, nil
	}
}
func (r verifRouter) HandlerByTypeURL(string) baseapp.MsgServiceHandler { return nil }

func verifAny(m sdk.Msg) *codectypes.Any {
	a, err := codectypes.NewAnyWithValue(m)
	if err != nil {
		panic(err)
	}
	return a
}

func verifAmount(name string) sdkmath.Int {
	b := rt.BigInt(name)
	rt.Assume(rt.And(b.Sign() > 0, b.BitLen() <= 64))
	return sdkmath.NewIntFromBigInt(b)
}

// VerifC15EndBlocker: the governance end-blocker on a state with one proposal in its deposit
// period (two depositors) and one in its voting period (one depositor, two messages of one type,
// a voter with 0 / 30 / 60 of 100 bonded shares voting yes, no or veto), each ending before or
// after the block time, under every combination of the burn flags. The module account holds
// exactly the recorded deposits before; afterwards every deposit of an ended proposal has been
// refunded to its depositor or burned, exactly once (a second run changes nothing), the module
// account holds exactly the deposits of the proposals that are still open, and the messages of a
// passed proposal took effect all together or not at all.
func VerifC15EndBlocker() {
	if sdk.GetConfig().GetBech32AccountAddrPrefix() != fxtypes.AddressPrefix {
		fxtypes.SetConfig(false)
	}
	ms := models.NewMultiStore("gov")
	ctx := models.NewContext(ms, 10, 1700000000)
	now := ctx.BlockTime()
	bank := models.NewBank(ms)
	denom := fxtypes.DefaultDenom
	a := sdk.AccAddress([]byte{0xa1, 1, 1, 1, 1, 1, 1, 1, 1, 1, 1, 1, 1, 1, 1, 1, 1, 1, 1, 1})
	b := sdk.AccAddress([]byte{0xb2, 2, 2, 2, 2, 2, 2, 2, 2, 2, 2, 2, 2, 2, 2, 2, 2, 2, 2, 2})
	val := sdk.ValAddress([]byte{0x71, 1, 1, 1, 1, 1, 1, 1, 1, 1, 1, 1, 1, 1, 1, 1, 1, 1, 1, 1})
	voterShares := []int64{0, 30, 60, 39, 40, 100}[rt.Choose("voterShares", rt.Bound("voterShareChoices", 3, 6))]
	sk := verifStaking{val: val, voter: b, voterShares: voterShares}
	storeKey := models.NewStoreKey("gov")
	cdc := models.NewFullCodec(func(reg codectypes.InterfaceRegistry) {
		govv1.RegisterInterfaces(reg)
		distributiontypes.RegisterInterfaces(reg)
		types.RegisterInterfaces(reg)
	})
	gk := govkeeper.NewKeeper(cdc, models.NewStoreService("gov"), verifAccounts{}, bank, sk, nil, verifRouter{key: storeKey}, govtypes.DefaultConfig(), verifAuthority)
	k := keeper.NewKeeper(models.NewStoreService("gov"), verifAccounts{}, bank, sk, map[string]*storetypes.KVStoreKey{}, gk, cdc, verifAuthority)

	params := govv1.DefaultParams()
	params.MinDeposit = sdk.NewCoins(sdk.NewCoin(denom, sdkmath.NewInt(1000)))
	params.BurnProposalDepositPrevote = rt.Bool("burnPrevote")
	params.BurnVoteQuorum = rt.Bool("burnNoQuorum")
	params.BurnVoteVeto = rt.Bool("burnVeto")
	period := 14 * 24 * time.Hour
	params.VotingPeriod = &period
	zeroQuorum := rt.Bool("zeroQuorum")
	if zeroQuorum {
		params.Quorum = "0"
	} else {
		params.Quorum = "0.4"
	}
	if err := k.Params.Set(ctx, params); err != nil {
		panic(err)
	}
	ends := []time.Time{now.Add(-time.Minute), now, now.Add(time.Hour)}
	// proposal 1: collecting deposits
	d1, d2 := verifAmount("p1.deposit.A"), verifAmount("p1.deposit.B")
	p1End := ends[rt.Choose("p1.depositEnd", 3)]
	submit := now.Add(-100 * time.Hour)
	p1 := govv1.Proposal{Id: 1, Status: govv1.StatusDepositPeriod, TotalDeposit: sdk.NewCoins(sdk.NewCoin(denom, d1.Add(d2))), SubmitTime: &submit, DepositEndTime: &p1End, Title: "t", Summary: "s", Proposer: a.String()}
	// proposal 2: voting, two messages of one type
	e1 := verifAmount("p2.deposit.A")
	p2End := ends[rt.Choose("p2.votingEnd", 3)]
	failing := rt.Choose("p2.failingMessage", 3) // none, the first, the second
	anyFails := failing != 0
	m1 := &types.MsgUpdateSwitchParams{Authority: verifAuthority}
	m2 := &types.MsgUpdateSwitchParams{Authority: verifAuthority, Params: types.SwitchParams{DisableMsgTypes: []string{"/x"}}}
	if failing == 1 {
		m1.Params.DisablePrecompiles = []string{"fail"}
	} else if failing == 2 {
		m2.Params.DisablePrecompiles = []string{"fail"}
	}
	start := now.Add(-50 * time.Hour)
	p2 := govv1.Proposal{Id: 2, Status: govv1.StatusVotingPeriod, TotalDeposit: sdk.NewCoins(sdk.NewCoin(denom, e1)), SubmitTime: &submit, DepositEndTime: &submit, VotingStartTime: &start, VotingEndTime: &p2End,
		Title: "t", Summary: "s", Proposer: a.String(), Messages: []*codectypes.Any{verifAny(m1), verifAny(m2)}}
	vote := []govv1.VoteOption{govv1.OptionYes, govv1.OptionNo, govv1.OptionNoWithVeto}[rt.Choose("vote", 3)]
	if k.SetProposal(ctx, p1) != nil || k.SetProposal(ctx, p2) != nil ||
		k.SetDeposit(ctx, govv1.NewDeposit(1, a, sdk.NewCoins(sdk.NewCoin(denom, d1)))) != nil || k.SetDeposit(ctx, govv1.NewDeposit(1, b, sdk.NewCoins(sdk.NewCoin(denom, d2)))) != nil ||
		k.SetDeposit(ctx, govv1.NewDeposit(2, a, sdk.NewCoins(sdk.NewCoin(denom, e1)))) != nil ||
		k.InactiveProposalsQueue.Set(ctx, collections.Join(p1End, uint64(1)), 1) != nil || k.ActiveProposalsQueue.Set(ctx, collections.Join(p2End, uint64(2)), 2) != nil ||
		k.Votes.Set(ctx, collections.Join(uint64(2), b), govv1.Vote{ProposalId: 2, Voter: b.String(), Options: govv1.NewNonSplitVoteOption(vote)}) != nil {
		panic("harness: cannot build state")
	}
	module := models.ModuleAddress(govtypes.ModuleName)
	bank.SetBalance(module, denom, d1.Add(d2).Add(e1)) // exactly the recorded deposits
	wa, wb := verifAmount("wallet.A"), verifAmount("wallet.B")
	bank.SetBalance(a, denom, wa)
	bank.SetBalance(b, denom, wb)
	supply := bank.Supply(denom)
	rt.Cover("state-built")

	if err := EndBlocker(ctx, k); err != nil {
		rt.Assert(false, "the governance end-blocker does not fail on consistent records")
		return
	}
	p1Ended := !p1End.After(now)
	p2Ended := !p2End.After(now)
	quorumReached := zeroQuorum || voterShares >= 40 // quorum 0.4 (or none) of 100 bonded
	voted := voterShares > 0                         // a voter without stake carries no power
	passes := p2Ended && quorumReached && voted && vote == govv1.OptionYes
	burn2 := p2Ended && ((!quorumReached && params.BurnVoteQuorum) || (quorumReached && voted && vote == govv1.OptionNoWithVeto && params.BurnVoteVeto))
	burn1 := p1Ended && params.BurnProposalDepositPrevote
	// expected money
	expA, expB, expSupply, open := wa, wb, supply, sdkmath.ZeroInt()
	if !p1Ended {
		open = open.Add(d1).Add(d2)
	} else if burn1 {
		expSupply = expSupply.Sub(d1).Sub(d2)
	} else {
		expA, expB = expA.Add(d1), expB.Add(d2)
	}
	if !p2Ended {
		open = open.Add(e1)
	} else if burn2 {
		expSupply = expSupply.Sub(e1)
	} else {
		expA = expA.Add(e1)
	}
	check := func(when string) {
		rt.Assert(bank.Balance(module, denom).Equal(open), "the module account holds exactly the deposits of the proposals that are still open "+when)
		rt.Assert(rt.And(bank.Balance(a, denom).Equal(expA), bank.Balance(b, denom).Equal(expB)), "every deposit of an ended proposal was refunded to its depositor exactly once, or burned "+when)
		rt.Assert(bank.Supply(denom).Equal(expSupply), "exactly the deposits to be burned were burned "+when)
	}
	check("(after the end-blocker)")
	has1a, _ := k.Deposits.Has(ctx, collections.Join(uint64(1), a))
	has1b, _ := k.Deposits.Has(ctx, collections.Join(uint64(1), b))
	has2a, _ := k.Deposits.Has(ctx, collections.Join(uint64(2), a))
	rt.Assert(has1a == !p1Ended && has1b == !p1Ended && has2a == !p2Ended, "deposit records exist exactly for the proposals that are still open")
	_, err1 := k.Proposals.Get(ctx, 1)
	rt.Assert((err1 != nil) == p1Ended, "a proposal that did not reach its minimum deposit in time is deleted")
	got2, err2 := k.Proposals.Get(ctx, 2)
	if err2 != nil {
		rt.Assert(false, "a voted proposal stays on record")
		return
	}
	marker0, marker1 := ms.Store("gov").Has([]byte{0x7e, 0}), ms.Store("gov").Has([]byte{0x7e, 1})
	if !p2Ended {
		rt.Cover("voting-continues")
		rt.Assert(got2.Status == govv1.StatusVotingPeriod && !marker0 && !marker1, "a proposal whose voting period has not ended is untouched")
	} else if passes {
		rt.Cover("passed")
		if anyFails {
			rt.Assert(got2.Status == govv1.StatusFailed && !marker0 && !marker1, "a passed proposal one of whose messages fails leaves no effect of any of its messages")
		} else {
			rt.Assert(got2.Status == govv1.StatusPassed && marker0 && marker1, "all messages of a passed proposal take effect")
		}
	} else {
		rt.Cover("rejected")
		rt.Assert(got2.Status == govv1.StatusRejected && !marker0 && !marker1, "a proposal that does not pass executes nothing")
	}
	// a second run in the same block changes nothing: each deposit is settled exactly once
	if err := EndBlocker(ctx, k); err != nil {
		rt.Assert(false, "a second end-blocker run does not fail")
		return
	}
	check("(after a second run)")
}

// verifStaking2: two bonded validators (100 tokens each), both of which may vote themselves.
type verifStaking2 struct{ vals []sdk.ValAddress }

func (s verifStaking2) ValidatorAddressCodec() addresscodec.Codec { return verifValCodec{} }
func (s verifStaking2) IterateBondedValidatorsByPower(ctx context.Context, fn func(int64, stakingtypes.ValidatorI) bool) error {
	for i, v := range s.vals {
		fn(int64(i), stakingtypes.Validator{OperatorAddress: v.String(), Status: stakingtypes.Bonded, Tokens: sdkmath.NewInt(100), DelegatorShares: sdkmath.LegacyNewDec(100)})
	}
	return nil
}
func (s verifStaking2) TotalBondedTokens(context.Context) (sdkmath.Int, error) {
	return sdkmath.NewInt(int64(100 * len(s.vals))), nil
}
func (s verifStaking2) IterateDelegations(ctx context.Context, d sdk.AccAddress, fn func(int64, stakingtypes.DelegationI) bool) error {
	return nil
}

// VerifC17Tally: the tally of a proposal on which two or three validators voted (each yes, no,
// veto or abstain) is computed from Go maps of validators and of results; its verdict, burn flag
// and result figures must not depend on map iteration order (run under both orders on two
// branches of the same state).
func VerifC17Tally() {
	if sdk.GetConfig().GetBech32AccountAddrPrefix() != fxtypes.AddressPrefix {
		fxtypes.SetConfig(false)
	}
	ms := models.NewMultiStore("gov")
	ctx := models.NewContext(ms, 10, 1700000000)
	bank := models.NewBank(ms)
	n := rt.Bound("votingValidators", 2, 3)
	var vals []sdk.ValAddress
	for i := 0; i < n; i++ {
		a := make([]byte, 20)
		a[0], a[1] = 0x71, byte(i+1)
		vals = append(vals, sdk.ValAddress(a))
	}
	sk := verifStaking2{vals: vals}
	cdc := models.NewFullCodec(func(reg codectypes.InterfaceRegistry) {
		govv1.RegisterInterfaces(reg)
		types.RegisterInterfaces(reg)
	})
	gk := govkeeper.NewKeeper(cdc, models.NewStoreService("gov"), verifAccounts{}, bank, sk, nil, nil, govtypes.DefaultConfig(), verifAuthority)
	k := keeper.NewKeeper(models.NewStoreService("gov"), verifAccounts{}, bank, sk, map[string]*storetypes.KVStoreKey{}, gk, cdc, verifAuthority)
	params := govv1.DefaultParams()
	params.BurnVoteVeto = true
	if err := k.Params.Set(ctx, params); err != nil {
		panic(err)
	}
	now := ctx.BlockTime()
	p := govv1.Proposal{Id: 1, Status: govv1.StatusVotingPeriod, SubmitTime: &now, DepositEndTime: &now, VotingStartTime: &now, VotingEndTime: &now, Title: "t", Summary: "s"}
	if k.SetProposal(ctx, p) != nil {
		panic("harness: cannot store the proposal")
	}
	opts := []govv1.VoteOption{govv1.OptionYes, govv1.OptionNo, govv1.OptionNoWithVeto, govv1.OptionAbstain}
	for i, v := range vals {
		o := opts[rt.Choose([]string{"vote1", "vote2", "vote3"}[i], 4)]
		voter := sdk.AccAddress(v)
		if k.Votes.Set(ctx, collections.Join(uint64(1), voter), govv1.Vote{ProposalId: 1, Voter: voter.String(), Options: govv1.NewNonSplitVoteOption(o)}) != nil {
			panic("harness: cannot store a vote")
		}
	}
	var firstPass, firstBurn bool
	var first govv1.TallyResult
	for run := 0; run < rt.Repeats(); run++ {
		rt.SetMapOrder(run%2 == 1)
		cctx, _ := ctx.CacheContext()
		passes, burn, res, err := k.Tally(cctx, p)
		if err != nil {
			rt.Assert(false, "the tally does not fail on consistent records")
			return
		}
		if run == 0 {
			firstPass, firstBurn, first = passes, burn, res
			rt.Cover("computed")
			continue
		}
		rt.Assert(passes == firstPass && burn == firstBurn, "same verdict and burn flag under every map order")
		rt.Assert(res.YesCount == first.YesCount && res.NoCount == first.NoCount && res.NoWithVetoCount == first.NoWithVetoCount && res.AbstainCount == first.AbstainCount,
			"identical tally figures under every map order")
	}
	rt.SetMapOrder(false)
}
