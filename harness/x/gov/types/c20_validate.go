package types

import (
	"time"

	sdk "github.com/cosmos/cosmos-sdk/types"

	fxtypes "github.com/functionx/fx-core/v8/types"
	"github.com/functionx/fx-core/v8/zzverif/models"
	"github.com/functionx/fx-core/v8/zzverif/rt"
)

// VerifC20ValidateGovMsgs: ValidateBasic of the fx gov messages never panics on ill-formed
// fields, and after a successful validation the raw-store accessors (which panic on bad hex) are safe.
func VerifC20ValidateGovMsgs() {
	if sdk.GetConfig().GetBech32AccountAddrPrefix() != fxtypes.AddressPrefix {
		fxtypes.SetConfig(false)
	}
	h := &models.Hostile{Budget: rt.Bound("illFormedFieldsAtOnce", 2, 3)}
	switch rt.Choose("message", 3) {
	case 0:
		m := &MsgUpdateStore{Authority: h.Acc("authority")}
		for i, n := 0, rt.Choose("entries", 3); i < n; i++ {
			m.UpdateStores = append(m.UpdateStores, UpdateStore{Space: []string{"eth", ""}[rt.Choose("space", 2)], Key: h.Hex("key"), OldValue: h.Hex("old"), Value: h.Hex("value")})
		}
		if m.ValidateBasic() == nil {
			rt.Cover("valid")
			for i := range m.UpdateStores {
				_, _, _ = m.UpdateStores[i].KeyToBytes(), m.UpdateStores[i].OldValueToBytes(), m.UpdateStores[i].ValueToBytes()
			}
		} else {
			rt.Cover("rejected")
		}
	case 1:
		m := &MsgUpdateSwitchParams{Authority: h.Acc("authority"), Params: SwitchParams{}}
		if rt.Bool("withDisabled") {
			m.Params.DisablePrecompiles = []string{h.Ext("precompile")}
			m.Params.DisableMsgTypes = []string{h.Junk("msgType", 3)}
		}
		if m.ValidateBasic() == nil {
			rt.Cover("valid")
		} else {
			rt.Cover("rejected")
		}
	default:
		p := CustomParams{Quorum: []string{"0.2", "", "-1", "2", "abc"}[rt.Choose("quorum", 5)], DepositRatio: []string{"0.1", "", "1.5"}[rt.Choose("depositRatio", 3)]}
		if rt.Bool("hasVotingPeriod") {
			d := []time.Duration{-5 * time.Second, 0, time.Hour}[rt.Choose("votingPeriod", 3)]
			p.VotingPeriod = &d
		}
		m := &MsgUpdateCustomParams{Authority: h.Acc("authority"), MsgUrl: []string{"/x", ""}[rt.Choose("msgUrl", 2)], CustomParams: p}
		_ = m
		if p.ValidateBasic() == nil {
			rt.Cover("valid")
		} else {
			rt.Cover("rejected")
		}
	}
}
