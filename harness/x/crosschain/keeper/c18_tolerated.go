package keeper

import (
	sdkmath "cosmossdk.io/math"
	codectypes "github.com/cosmos/cosmos-sdk/codec/types"
	sdk "github.com/cosmos/cosmos-sdk/types"
	"github.com/ethereum/go-ethereum/common"

	"github.com/functionx/fx-core/v8/x/crosschain/types"
	"github.com/functionx/fx-core/v8/zzverif/models"
	"github.com/functionx/fx-core/v8/zzverif/rt"
)

const verifTargetContract = "0x0000000000000000000000000000000000000077"

// VerifC18BridgeCallFailure: an observed inbound bridge call whose contract call fails (error or
// EVM revert), after the callee and the token conversion have already written state. The state
// afterwards must contain the designated outcome (an outgoing refund bridge call for exactly the
// deposited tokens, owned by the refund address) and nothing written inside the failed sub-step:
// no store write of the callee, no token conversion; and value is conserved.
func VerifC18BridgeCallFailure() {
	e := verifBridgeState()
	e.k.SetLastObservedBlockHeight(e.ctx, 1000, 90)
	module := models.ModuleAddress(verifModule)
	to := common.HexToAddress(verifTargetContract)
	e.evm.Contracts = append(e.evm.Contracts, to)
	x := verifAmt("deposit", 100)
	rt.Assume(x.IsPositive())
	preTo := verifAmt("balance.to", 100)
	e.bank.SetBalance(to.Bytes(), verifBase, preTo)
	e.bank.SetBalance(module, e.bridgeDenom, preTo) // escrow == base supply
	// the callee writes into the chain store and then the call fails
	marker := []byte{0x7e, 0x01}
	e.evm.BeforeCall = func(ctx sdk.Context) { ctx.KVStore(e.k.storeKey).Set(marker, []byte{1}) }
	switch rt.Choose("failure", 4) {
	case 0:
		e.evm.CallFails = true
	case 1:
		e.evm.CallVmErr = true // execution reverted
	case 2:
		e.evm.CallVmErr, e.evm.VmErrText = true, "out of gas"
	default:
		e.evm.CallVmErr, e.evm.VmErrText = true, "invalid jump destination"
	}
	claim := &types.MsgBridgeCallClaim{ChainName: verifModule, BridgerAddress: verifOracleIdent(0).bridger.String(), EventNonce: 7, BlockHeight: 900,
		Sender: verifAddrB, Refund: verifTargetContract, To: verifTargetContract, TokenContracts: []string{verifTokenA}, Amounts: []sdkmath.Int{x},
		Data: "aabb", Value: sdkmath.ZeroInt(), Memo: "", TxOrigin: verifAddrB}
	tokBefore := e.tok.BalanceOf(verifErc20Token, to)
	rt.Cover("state-built")

	err := e.k.BridgeCallHandler(e.ctx, claim)
	rt.Assert(e.evm.Calls == 1, "the contract was called exactly once")
	rt.Assert(!e.store().Has(marker), "nothing the failed call wrote is kept")
	rt.Assert(e.tok.BalanceOf(verifErc20Token, to).Cmp(tokBefore) == 0, "the token conversion made for the failed call is undone")
	if err != nil {
		rt.Cover("handler-error")
		return // the whole event handler is rolled back by its caller
	}
	rt.Cover("refund-recorded")
	call, found := e.k.GetOutgoingBridgeCallByNonce(e.ctx, 1)
	rt.Assert(found, "the designated outcome exists: an outgoing refund bridge call")
	if found {
		rt.Assert(call.Refund == verifTargetContract && call.Sender == verifTargetContract, "refund call is owned by the refund address")
		rt.Assert(len(call.Tokens) == 1 && call.Tokens[0].Contract == verifTokenA && call.Tokens[0].Amount.Equal(x), "refund call carries exactly the deposited tokens")
		rt.Assert(call.EventNonce == 7, "refund call references the failed event")
	}
	_, second := e.k.GetOutgoingBridgeCallByNonce(e.ctx, 2)
	rt.Assert(!second, "exactly one refund record")
	// value: the deposit went back in flight; holdings unchanged; escrow invariant
	rt.Assert(e.bank.Balance(to.Bytes(), verifBase).Equal(preTo), "receiver's holdings are what they were before the deposit")
	rt.Assert(e.bank.Balance(module, e.bridgeDenom).Equal(e.bank.Supply(verifBase)), "escrow of the bridge denomination == base supply")
}

// VerifC18AttestationHandlerFailure: an observed event whose handler fails is still marked
// observed (nonce and height advance, event emitted path) and the handler's writes are dropped:
// here a bridge-token claim for a token that is already registered.
func VerifC18AttestationHandlerFailure() {
	e := verifBridgeState()
	e.verifAddOracle(0, true, 1, verifStake(0), 0)
	e.k.SetLastTotalPower(e.ctx)
	L := rt.U64("lastObservedEventNonce")
	rt.Assume(L < 998) // the claim hash renders nonce and height in decimal (bounded rendering)
	e.k.SetLastObservedEventNonce(e.ctx, L)
	dup := rt.Bool("tokenAlreadyRegistered")
	token := verifTokenA
	if !dup {
		token = "0x0000000000000000000000000000000000000009"
	}
	height := rt.U64("claim.blockHeight")
	rt.Assume(rt.And(height >= 1, height < 1000))
	claim := &types.MsgBridgeTokenClaim{EventNonce: L + 1, BlockHeight: height, TokenContract: token, Name: "N", Symbol: "SYM", Decimals: 6,
		BridgerAddress: verifOracleIdent(0).bridger.String(), ChainName: verifModule}
	anyClaim, aerr := codectypes.NewAnyWithValue(claim)
	if aerr != nil {
		rt.Assert(false, "harness: cannot pack claim")
	}
	att := &types.Attestation{Height: 1, Votes: []string{verifOracleIdent(0).oracle.String()}, Claim: anyClaim}
	e.k.SetAttestation(e.ctx, claim.EventNonce, claim.ClaimHash(), att)
	keysBefore := e.store().Len()
	e.k.TryAttestation(e.ctx, att, claim)
	rt.Assert(e.k.GetLastObservedEventNonce(e.ctx) == L+1, "the event is marked observed whether or not its handler failed")
	got := e.k.GetAttestation(e.ctx, claim.EventNonce, claim.ClaimHash())
	rt.Assert(got != nil && got.Observed, "attestation flagged observed")
	newDenom := types.NewBridgeDenom(verifModule, token)
	if dup {
		rt.Cover("handler-failed")
		// designated outcome only: last observed nonce (+1 key if absent before), observed height
		rt.Assert(e.store().Len() <= keysBefore+2, "a failed handler adds nothing beyond the observation markers")
	} else {
		rt.Cover("handler-succeeded")
		rt.Assert(e.k.HasBridgeToken(e.ctx, newDenom), "a successful handler's writes are committed")
	}
}
