package keeper

import (
	sdkmath "cosmossdk.io/math"
	codectypes "github.com/cosmos/cosmos-sdk/codec/types"
	sdk "github.com/cosmos/cosmos-sdk/types"
	"github.com/ethereum/go-ethereum/common"
	"math/big"

	"github.com/functionx/fx-core/v8/x/crosschain/types"
	"github.com/functionx/fx-core/v8/zzverif/models"
	"github.com/functionx/fx-core/v8/zzverif/rt"
)

const verifTargetContract = "0x0000000000000000000000000000000000000077"

// VerifC18BridgeCallFailure: an observed inbound bridge call whose contract call fails (error or
// EVM revert), after the callee and the token conversion have already written state. The state
// afterwards must contain the designated outcome (an outgoing refund bridge call for exactly the
// deposited tokens, owned by the refund address) and nothing written inside the failed sub-step:
// no store write of the callee, no token conversion; and value is conserved.
func VerifC18BridgeCallFailure() {
	e := verifBridgeState()
	e.k.SetLastObservedBlockHeight(e.ctx, 1000, 90)
	module := models.ModuleAddress(verifModule)
	to := common.HexToAddress(verifTargetContract)
	e.evm.Contracts = append(e.evm.Contracts, to)
	x := verifAmt("deposit", 100)
	rt.Assume(x.IsPositive())
	preTo := verifAmt("balance.to", 100)
	e.bank.SetBalance(to.Bytes(), verifBase, preTo)
	e.bank.SetBalance(module, e.bridgeDenom, preTo) // escrow == base supply
	// the callee writes into the chain store and then the call fails
	marker := []byte{0x7e, 0x01}
	e.evm.BeforeCall = func(ctx sdk.Context) { ctx.KVStore(e.k.storeKey).Set(marker, []byte{1}) }
	switch rt.Choose("failure", 4) {
	case 0:
		e.evm.CallFails = true
	case 1:
		e.evm.CallVmErr = true // execution reverted
	case 2:
		e.evm.CallVmErr, e.evm.VmErrText = true, "out of gas"
	default:
		e.evm.CallVmErr, e.evm.VmErrText = true, "invalid jump destination"
	}
	claim := &types.MsgBridgeCallClaim{ChainName: verifModule, BridgerAddress: verifOracleIdent(0).bridger.String(), EventNonce: 7, BlockHeight: 900,
		Sender: verifAddrB, Refund: verifTargetContract, To: verifTargetContract, TokenContracts: []string{verifTokenA}, Amounts: []sdkmath.Int{x},
		Data: "aabb", Value: sdkmath.ZeroInt(), Memo: "", TxOrigin: verifAddrB}
	tokBefore := e.tok.BalanceOf(verifErc20Token, to)
	rt.Cover("state-built")

	err := e.k.BridgeCallHandler(e.ctx, claim)
	rt.Assert(e.evm.Calls == 1, "the contract was called exactly once")
	rt.Assert(!e.store().Has(marker), "nothing the failed call wrote is kept")
	rt.Assert(e.tok.BalanceOf(verifErc20Token, to).Cmp(tokBefore) == 0, "the token conversion made for the failed call is undone")
	if err != nil {
		rt.Cover("handler-error")
		return // the whole event handler is rolled back by its caller
	}
	rt.Cover("refund-recorded")
	call, found := e.k.GetOutgoingBridgeCallByNonce(e.ctx, 1)
	rt.Assert(found, "the designated outcome exists: an outgoing refund bridge call")
	if found {
		rt.Assert(call.Refund == verifTargetContract && call.Sender == verifTargetContract, "refund call is owned by the refund address")
		rt.Assert(len(call.Tokens) == 1 && call.Tokens[0].Contract == verifTokenA && call.Tokens[0].Amount.Equal(x), "refund call carries exactly the deposited tokens")
		rt.Assert(call.EventNonce == 7, "refund call references the failed event")
	}
	_, second := e.k.GetOutgoingBridgeCallByNonce(e.ctx, 2)
	rt.Assert(!second, "exactly one refund record")
	// value: the deposit went back in flight; holdings unchanged; escrow invariant
	rt.Assert(e.bank.Balance(to.Bytes(), verifBase).Equal(preTo), "receiver's holdings are what they were before the deposit")
	rt.Assert(e.bank.Balance(module, e.bridgeDenom).Equal(e.bank.Supply(verifBase)), "escrow of the bridge denomination == base supply")
}

// VerifC18AttestationHandlerFailure: an observed event whose handler fails is still marked
// observed (nonce and height advance, event emitted path) and the handler's writes are dropped:
// here a bridge-token claim for a token that is already registered.
func VerifC18AttestationHandlerFailure() {
	e := verifBridgeState()
	e.verifAddOracle(0, true, 1, verifStake(0), 0)
	e.k.SetLastTotalPower(e.ctx)
	L := rt.U64("lastObservedEventNonce")
	rt.Assume(L < 998) // the claim hash renders nonce and height in decimal (bounded rendering)
	e.k.SetLastObservedEventNonce(e.ctx, L)
	dup := rt.Bool("tokenAlreadyRegistered")
	token := verifTokenA
	if !dup {
		token = "0x0000000000000000000000000000000000000009"
	}
	height := rt.U64("claim.blockHeight")
	rt.Assume(rt.And(height >= 1, height < 1000))
	claim := &types.MsgBridgeTokenClaim{EventNonce: L + 1, BlockHeight: height, TokenContract: token, Name: "N", Symbol: "SYM", Decimals: 6,
		BridgerAddress: verifOracleIdent(0).bridger.String(), ChainName: verifModule}
	anyClaim, aerr := codectypes.NewAnyWithValue(claim)
	if aerr != nil {
		rt.Assert(false, "harness: cannot pack claim")
	}
	att := &types.Attestation{Height: 1, Votes: []string{verifOracleIdent(0).oracle.String()}, Claim: anyClaim}
	e.k.SetAttestation(e.ctx, claim.EventNonce, claim.ClaimHash(), att)
	keysBefore := e.store().Len()
	e.k.TryAttestation(e.ctx, att, claim)
	rt.Assert(e.k.GetLastObservedEventNonce(e.ctx) == L+1, "the event is marked observed whether or not its handler failed")
	got := e.k.GetAttestation(e.ctx, claim.EventNonce, claim.ClaimHash())
	rt.Assert(got != nil && got.Observed, "attestation flagged observed")
	newDenom := types.NewBridgeDenom(verifModule, token)
	if dup {
		rt.Cover("handler-failed")
		// designated outcome only: last observed nonce (+1 key if absent before), observed height
		rt.Assert(e.store().Len() <= keysBefore+2, "a failed handler adds nothing beyond the observation markers")
	} else {
		rt.Cover("handler-succeeded")
		rt.Assert(e.k.HasBridgeToken(e.ctx, newDenom), "a successful handler's writes are committed")
	}
}

// VerifC18PlainDestinationFailure: an observed inbound bridge call carrying two tokens to a plain
// account (no contract call), where the conversion of the first or of the second coin into its
// ERC-20 form fails (the token pair was switched off). The sub-step is a tolerated failure: the
// state afterwards holds the refund record for exactly the deposited tokens and nothing the failed
// sub-step wrote - in particular no ERC-20 from a conversion that succeeded before the failing one.
func VerifC18PlainDestinationFailure() {
	e := verifBridgeState()
	e.k.SetLastObservedBlockHeight(e.ctx, 1000, 90)
	base2, bridgeDenom2, erc2 := e.verifSecondToken()
	module := models.ModuleAddress(verifModule)
	to := common.HexToAddress(verifTargetContract) // a plain account: never added to the contract set
	x1, x2 := verifAmt("deposit.usdt", 64), verifAmt("deposit.fxusd", 64)
	rt.Assume(rt.And(x1.IsPositive(), x2.IsPositive()))
	pre1, pre2 := verifAmt("balance.usdt", 64), verifAmt("balance.fxusd", 64)
	e.bank.SetBalance(to.Bytes(), verifBase, pre1)
	e.bank.SetBalance(to.Bytes(), base2, pre2)
	e.bank.SetBalance(module, e.bridgeDenom, pre1)
	e.bank.SetBalance(module, bridgeDenom2, pre2)
	switch rt.Choose("disabledPair", 3) {
	case 1:
		if _, err := e.ek.ToggleTokenConvert(e.ctx, base2); err != nil { // "fxusd" sorts first
			rt.Assert(false, "harness: toggle")
		}
	case 2:
		if _, err := e.ek.ToggleTokenConvert(e.ctx, verifBase); err != nil { // "usdt" sorts second
			rt.Assert(false, "harness: toggle")
		}
	}
	claim := &types.MsgBridgeCallClaim{ChainName: verifModule, BridgerAddress: verifOracleIdent(0).bridger.String(), EventNonce: 7, BlockHeight: 900,
		Sender: verifAddrB, Refund: verifTargetContract, To: verifTargetContract, TokenContracts: []string{verifTokenA, verifTokenB}, Amounts: []sdkmath.Int{x1, x2},
		Data: "", Value: sdkmath.ZeroInt(), Memo: "", TxOrigin: verifAddrB}
	tok1 := e.tok.BalanceOf(verifErc20Token, to)
	tok2 := e.tok.BalanceOf(erc2, to)
	rt.Cover("state-built")
	err := e.k.BridgeCallHandler(e.ctx, claim)
	if err != nil {
		rt.Cover("handler-error")
		return // the whole event handler is rolled back by its caller
	}
	call, refunded := e.k.GetOutgoingBridgeCallByNonce(e.ctx, 1)
	if !refunded {
		rt.Cover("delivered")
		rt.Assert(rt.And(e.tok.BalanceOf(verifErc20Token, to).Cmp(new(big.Int).Add(tok1, x1.BigInt())) == 0, e.tok.BalanceOf(erc2, to).Cmp(new(big.Int).Add(tok2, x2.BigInt())) == 0),
			"a delivered call credits exactly the deposited tokens as ERC-20")
		return
	}
	rt.Cover("refund-recorded")
	rt.Assert(rt.And(e.tok.BalanceOf(verifErc20Token, to).Cmp(tok1) == 0, e.tok.BalanceOf(erc2, to).Cmp(tok2) == 0), "no token conversion of the failed sub-step survives")
	rt.Assert(len(call.Tokens) == 2, "the refund call carries both deposited tokens")
	if len(call.Tokens) == 2 {
		sum := call.Tokens[0].Amount.Add(call.Tokens[1].Amount)
		rt.Assert(sum.Equal(x1.Add(x2)), "the refund call carries exactly the deposited amounts")
	}
	rt.Assert(rt.And(e.bank.Balance(to.Bytes(), verifBase).Equal(pre1), e.bank.Balance(to.Bytes(), base2).Equal(pre2)), "the receiver's holdings are what they were before the deposit")
}
