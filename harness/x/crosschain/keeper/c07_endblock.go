package keeper

import (
	"fmt"

	"github.com/functionx/fx-core/v8/x/crosschain/types"
	"github.com/functionx/fx-core/v8/zzverif/rt"
)

// VerifC07EndBlocker: the crosschain end-blocker (slashing passes, oracle-set refresh, pruning)
// neither panics nor fails from any state built from consistent records: arbitrary block height
// and signed window, oracles online or not with arbitrary start heights, pending oracle sets,
// a batch and an outgoing bridge call of arbitrary age, each confirmed by an arbitrary subset.
func VerifC07EndBlocker() {
	ctxH := rt.I64("ctxHeight")
	rt.Assume(rt.And(ctxH >= 1, ctxH < 1<<40))
	e := verifNewEnv(1)
	e.ctx = e.ctx.WithBlockHeight(ctxH)
	window := rt.U64("signedWindow")
	rt.Assume(rt.And(window >= 1, window < 1<<40))
	e.setParams(verifParamSets[0], window)

	nOracles := rt.Bound("oracles", 2, 2)
	oracles := e.verifSymOracles(nOracles)
	e.k.SetLastTotalPower(e.ctx)

	// pending oracle sets (created at or before the current height)
	nSets := rt.Choose("oracleSets", rt.Bound("maxOracleSets", 1, 1)+1)
	for s := 1; s <= nSets; s++ {
		hgt := rt.U64(fmt.Sprintf("oracleSet%d.height", s))
		rt.Assume(hgt <= uint64(ctxH))
		e.k.StoreOracleSet(e.ctx, types.NewOracleSet(uint64(s), hgt, types.BridgeValidators{{Power: 4294967295, ExternalAddress: verifOracleIdent(0).external}}))
		e.k.SetLatestOracleSetNonce(e.ctx, uint64(s))
		pat := rt.Choose(fmt.Sprintf("oracleSet%d.confirmPattern", s), 3)
		for i := range oracles {
			if verifConfirms(pat, i) {
				id := verifOracleIdent(i)
				e.k.SetOracleSetConfirm(e.ctx, id.oracle, &types.MsgOracleSetConfirm{Nonce: uint64(s), BridgerAddress: id.bridger.String(), ExternalAddress: id.external, Signature: "00", ChainName: verifModule})
			}
		}
	}
	if nSets > 0 {
		slashed := rt.U64("lastSlashedOracleSetNonce")
		rt.Assume(slashed <= uint64(nSets))
		e.k.SetLastSlashedOracleSetNonce(e.ctx, slashed)
	}
	// one batch of arbitrary age
	if rt.Bool("hasBatch") {
		blk := rt.U64("batch.block")
		rt.Assume(rt.And(blk >= 1, blk <= uint64(ctxH)))
		b := &types.OutgoingTxBatch{BatchNonce: 1, BatchTimeout: rt.U64("batch.timeout"), TokenContract: verifTokenA, Block: blk, FeeReceive: verifAddrB,
			Transactions: []*types.OutgoingTransferTx{verifTransfer(1, verifTokenA, 10, 2)}}
		if e.k.StoreBatch(e.ctx, b) != nil {
			rt.Assert(false, "harness: cannot store batch")
		}
		pat := rt.Choose("batch.confirmPattern", 3)
		for i := range oracles {
			if verifConfirms(pat, i) {
				id := verifOracleIdent(i)
				e.k.SetBatchConfirm(e.ctx, id.oracle, &types.MsgConfirmBatch{Nonce: 1, TokenContract: verifTokenA, BridgerAddress: id.bridger.String(), ExternalAddress: id.external, Signature: "00", ChainName: verifModule})
			}
		}
		lastSlashedBlock := rt.U64("lastSlashedBatchBlock")
		rt.Assume(lastSlashedBlock <= uint64(ctxH))
		e.k.SetLastSlashedBatchBlock(e.ctx, lastSlashedBlock)
	}
	// one outgoing bridge call of arbitrary age
	if rt.Bool("hasBridgeCall") {
		bh := rt.U64("bridgeCall.blockHeight")
		rt.Assume(rt.And(bh >= 1, bh <= uint64(ctxH)))
		e.k.SetOutgoingBridgeCall(e.ctx, &types.OutgoingBridgeCall{Nonce: 1, Timeout: rt.U64("bridgeCall.timeout"), BlockHeight: bh, Sender: verifAddrB, Refund: verifAddrB, To: verifTokenA})
		pat := rt.Choose("bridgeCall.confirmPattern", 3)
		for i := range oracles {
			if verifConfirms(pat, i) {
				id := verifOracleIdent(i)
				e.k.SetBridgeCallConfirm(e.ctx, id.oracle, &types.MsgBridgeCallConfirm{Nonce: 1, BridgerAddress: id.bridger.String(), ExternalAddress: id.external, Signature: "00", ChainName: verifModule})
			}
		}
	}
	rt.Cover("state-built")
	e.k.EndBlocker(e.ctx)
	rt.Cover("end-blocker-returned")
}

// verifConfirms: confirmation patterns 0 = nobody, 1 = everybody except oracle 0, 2 = everybody.
func verifConfirms(pattern, oracle int) bool {
	switch pattern {
	case 0:
		return false
	case 1:
		return oracle != 0
	}
	return true
}
