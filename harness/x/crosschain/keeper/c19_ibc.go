package keeper

import (
	erc20keeper "github.com/functionx/fx-core/v8/x/erc20/keeper"
	erc20types "github.com/functionx/fx-core/v8/x/erc20/types"
	"github.com/functionx/fx-core/v8/zzverif/models"
	"github.com/functionx/fx-core/v8/zzverif/rt"
)

// verifWithErc20 wires the real x/erc20 keeper (on its own model store, bank / token-ledger / EVM
// models) behind the crosschain keeper.
func verifWithErc20() (*verifEnv, erc20keeper.Keeper, *models.Bank, *models.Erc20, *models.EVM) {
	verifSetup()
	ms := models.NewMultiStore(verifModule, erc20types.StoreKey)
	e := &verifEnv{ms: ms}
	e.ctx = models.NewContext(ms, 100, 1700000000)
	bank, tok, evm := models.NewBank(ms), models.NewErc20(ms), models.NewEVM()
	ek := erc20keeper.NewKeeper(models.NewStoreKey(erc20types.StoreKey), models.NewCodec(nil), models.Accounts{}, bank, evm, tok, nil,
		"fx10d07y265gmmuvt4z0w9aw880jnsr700jqjzsmz")
	e.k = Keeper{moduleName: verifModule, cdc: models.NewCodec(verifRealCodec), storeKey: models.NewStoreKey(verifModule),
		bankKeeper: bank, erc20Keeper: ek, evmKeeper: evm, ak: models.Accounts{}, authority: "fx10d07y265gmmuvt4z0w9aw880jnsr700jqjzsmz"}
	return e, ek, bank, tok, evm
}

// VerifC19AckClearsRelation: the tracking record written when an IBC transfer is started from the
// EVM (erc20 IBC-transfer relation for (channel, sequence)) is gone after a success
// acknowledgement, for every channel and sequence; records of other transfers stay.
func VerifC19AckClearsRelation() {
	e, ek, _, _, _ := verifWithErc20()
	channels := []string{"channel-0", "channel-1", "channel-17"}
	ch := channels[rt.Choose("channel", len(channels))]
	seq := rt.U64("sequence")
	otherSeq := rt.U64("otherSequence")
	rt.Assume(rt.And(otherSeq != seq, seq < 1000000, otherSeq < 1000000))
	ek.SetIBCTransferRelation(e.ctx, ch, seq)
	ek.SetIBCTransferRelation(e.ctx, ch, otherSeq)
	rt.Cover("relation-set")
	e.k.AfterIBCAckSuccess(e.ctx, ch, seq)
	rt.Assert(!ek.DeleteIBCTransferRelation(e.ctx, ch, seq), "success acknowledgement removed the transfer's tracking record")
	rt.Assert(ek.DeleteIBCTransferRelation(e.ctx, ch, otherSeq), "another in-flight transfer keeps its tracking record")
}
