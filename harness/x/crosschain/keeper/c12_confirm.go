package keeper

import (
	"encoding/hex"

	sdkmath "cosmossdk.io/math"
	sdk "github.com/cosmos/cosmos-sdk/types"

	"github.com/functionx/fx-core/v8/x/crosschain/types"
	"github.com/functionx/fx-core/v8/zzverif/rt"
	"github.com/functionx/fx-core/v8/zzverif/rtsig"
)

// verifAddKeyOracle registers oracle i whose external address is harness key i's address.
func (e *verifEnv) verifAddKeyOracle(i int, online bool) types.Oracle {
	id := verifOracleIdent(i)
	o := types.Oracle{OracleAddress: id.oracle.String(), BridgerAddress: id.bridger.String(), ExternalAddress: rtsig.KeyAddresses[i],
		DelegateAmount: verifStake(0), StartHeight: 1, Online: online, DelegateValidator: sdk.ValAddress(make([]byte, 20)).String()}
	e.k.SetOracle(e.ctx, o)
	e.k.SetOracleAddrByBridgerAddr(e.ctx, id.bridger, id.oracle)
	e.k.SetOracleAddrByExternalAddr(e.ctx, o.ExternalAddress, id.oracle)
	return o
}

// verifSigShape: the submitted signature is the harness signature as is, in the legacy V=27/28
// form, with an arbitrary extra byte appended, or cut to 64 bytes. Only the first two are
// well-formed signatures an external contract can verify.
func verifSigShape(sig []byte) ([]byte, bool) {
	out := append([]byte(nil), sig...)
	switch rt.Choose("signatureShape", 4) {
	case 0:
		return out, true
	case 1:
		out[64] += 27
		return out, true
	case 2:
		return append(out, rt.U8("trailingByte")), false
	}
	return out[:64], false
}

// VerifC12BatchConfirm: a batch confirmation is stored only if it carries a signature by the
// external key registered for the oracle, over the checkpoint of exactly the stored batch it
// names under this chain's gravity id, and is submitted by that oracle's bridger; at most one
// confirmation per oracle and batch. The submitted signature is made by any harness key over the
// checkpoint of the right batch, of another batch, or of the right batch under another gravity id.
func VerifC12BatchConfirm() {
	e := verifNewEnv(100)
	p := e.setParams(verifParamSets[0], 20000)
	oracles := []types.Oracle{e.verifAddKeyOracle(0, true), e.verifAddKeyOracle(1, true)}
	mk := func(nonce uint64, amount int64) *types.OutgoingTxBatch {
		return &types.OutgoingTxBatch{BatchNonce: nonce, BatchTimeout: 1000 + nonce, TokenContract: verifTokenA, Block: 5 + nonce, FeeReceive: verifAddrB,
			Transactions: []*types.OutgoingTransferTx{verifTransfer(nonce, verifTokenA, amount, 2)}}
	}
	b1, b2 := mk(1, 10), mk(2, 20)
	if e.k.StoreBatch(e.ctx, b1) != nil || e.k.StoreBatch(e.ctx, b2) != nil {
		rt.Assert(false, "harness: cannot store batches")
	}
	// what was signed, by whom
	signer := rt.Choose("signerKey", 3) // key 2 belongs to nobody registered
	var signed []byte
	var err error
	what := rt.Choose("signedObject", 3)
	switch what {
	case 0:
		signed, err = b1.GetCheckpoint(p.GravityId)
	case 1:
		signed, err = b2.GetCheckpoint(p.GravityId)
	default:
		signed, err = b1.GetCheckpoint("another-gravity-id")
	}
	if err != nil {
		rt.Assert(false, "harness: checkpoint")
	}
	sig, wellFormed := verifSigShape(rtsig.SignEth(signed, signer))
	// the message
	claimed := rt.Choose("claimedOracle", 2)
	bridgerOf := rt.Choose("bridgerOf", 3)
	alreadyConfirmed := rt.Bool("alreadyConfirmed")
	msg := &types.MsgConfirmBatch{Nonce: 1, TokenContract: verifTokenA, BridgerAddress: verifOracleIdent(bridgerOf).bridger.String(),
		ExternalAddress: oracles[claimed].ExternalAddress, Signature: hex.EncodeToString(sig), ChainName: verifModule}
	if alreadyConfirmed {
		e.k.SetBatchConfirm(e.ctx, verifOracleIdent(claimed).oracle, &types.MsgConfirmBatch{Nonce: 1, TokenContract: verifTokenA,
			BridgerAddress: verifOracleIdent(claimed).bridger.String(), ExternalAddress: oracles[claimed].ExternalAddress, Signature: "00", ChainName: verifModule})
	}
	rt.Cover("state-built")
	err = e.k.ConfirmHandler(e.ctx, msg)
	if err != nil {
		rt.Cover("rejected")
		if !alreadyConfirmed {
			rt.Assert(e.k.GetBatchConfirm(e.ctx, verifTokenA, 1, verifOracleIdent(claimed).oracle) == nil, "rejected confirmation is not stored")
		}
		return
	}
	rt.Cover("stored")
	rt.Assert(signer == claimed, "signature was made by the external key registered for the claimed oracle")
	rt.Assert(what == 0, "signature covers the checkpoint of exactly the named batch under this chain's gravity id")
	rt.Assert(wellFormed, "the stored signature is a well-formed 65-byte signature")
	rt.Assert(bridgerOf == claimed, "submitted by that oracle's bridger")
	rt.Assert(!alreadyConfirmed, "at most one confirmation per oracle and batch")
	got := e.k.GetBatchConfirm(e.ctx, verifTokenA, 1, verifOracleIdent(claimed).oracle)
	rt.Assert(got != nil && got.Signature == msg.Signature, "the stored confirmation is the submitted one, filed under the signing oracle")
	rt.Assert(e.k.GetBatchConfirm(e.ctx, verifTokenA, 1, verifOracleIdent(1-claimed).oracle) == nil, "nothing is filed under another oracle")
}

var _ = sdkmath.NewInt

// VerifC12OtherConfirms: the same obligations for oracle-set and bridge-call confirmations.
func VerifC12OtherConfirms() {
	e := verifNewEnv(100)
	p := e.setParams(verifParamSets[0], 20000)
	oracles := []types.Oracle{e.verifAddKeyOracle(0, true), e.verifAddKeyOracle(1, true)}
	kind := rt.Choose("kind", 2) // 0 oracle set, 1 bridge call
	set1 := types.NewOracleSet(1, 50, types.BridgeValidators{{Power: 4294967295, ExternalAddress: rtsig.KeyAddresses[0]}})
	set2 := types.NewOracleSet(2, 60, types.BridgeValidators{{Power: 2294967295, ExternalAddress: rtsig.KeyAddresses[0]}, {Power: 2000000000, ExternalAddress: rtsig.KeyAddresses[1]}})
	call1 := &types.OutgoingBridgeCall{Nonce: 1, Timeout: 900, BlockHeight: 5, Sender: verifAddrB, Refund: verifAddrB, To: verifTokenA, Data: "aa", Memo: ""}
	call2 := &types.OutgoingBridgeCall{Nonce: 2, Timeout: 900, BlockHeight: 5, Sender: verifAddrB, Refund: verifAddrB, To: verifTokenA, Data: "aa", Memo: "bb"}
	e.k.StoreOracleSet(e.ctx, set1)
	e.k.StoreOracleSet(e.ctx, set2)
	e.k.SetOutgoingBridgeCall(e.ctx, call1)
	e.k.SetOutgoingBridgeCall(e.ctx, call2)
	signer := rt.Choose("signerKey", 3)
	what := rt.Choose("signedObject", 3)
	var signed []byte
	var err error
	if kind == 0 {
		switch what {
		case 0:
			signed, err = set1.GetCheckpoint(p.GravityId)
		case 1:
			signed, err = set2.GetCheckpoint(p.GravityId)
		default:
			signed, err = set1.GetCheckpoint("another-gravity-id")
		}
	} else {
		switch what {
		case 0:
			signed, err = call1.GetCheckpoint(p.GravityId)
		case 1:
			signed, err = call2.GetCheckpoint(p.GravityId)
		default:
			signed, err = call1.GetCheckpoint("another-gravity-id")
		}
	}
	if err != nil {
		rt.Assert(false, "harness: checkpoint")
	}
	rawSig, wellFormed := verifSigShape(rtsig.SignEth(signed, signer))
	sig := hex.EncodeToString(rawSig)
	claimed := rt.Choose("claimedOracle", 2)
	bridgerOf := rt.Choose("bridgerOf", 3)
	bridger := verifOracleIdent(bridgerOf).bridger.String()
	var confirm types.Confirm
	if kind == 0 {
		confirm = &types.MsgOracleSetConfirm{Nonce: 1, BridgerAddress: bridger, ExternalAddress: oracles[claimed].ExternalAddress, Signature: sig, ChainName: verifModule}
	} else {
		confirm = &types.MsgBridgeCallConfirm{Nonce: 1, BridgerAddress: bridger, ExternalAddress: oracles[claimed].ExternalAddress, Signature: sig, ChainName: verifModule}
	}
	rt.Cover("state-built")
	err = e.k.ConfirmHandler(e.ctx, confirm)
	oracleAddr := verifOracleIdent(claimed).oracle
	stored := false
	if kind == 0 {
		stored = e.k.GetOracleSetConfirm(e.ctx, 1, oracleAddr) != nil
	} else {
		stored = e.k.HasBridgeCallConfirm(e.ctx, 1, oracleAddr)
	}
	if err != nil {
		rt.Cover("rejected")
		rt.Assert(!stored, "rejected confirmation is not stored")
		return
	}
	rt.Cover("stored")
	rt.Assert(stored, "accepted confirmation is filed under the signing oracle")
	rt.Assert(signer == claimed, "signature was made by the external key registered for the claimed oracle")
	rt.Assert(what == 0, "signature covers the checkpoint of exactly the named object under this chain's gravity id")
	rt.Assert(wellFormed, "the stored signature is a well-formed 65-byte signature")
	rt.Assert(bridgerOf == claimed, "submitted by that oracle's bridger")
	// a second, identical submission is refused
	rt.Assert(e.k.ConfirmHandler(e.ctx, confirm) != nil, "a duplicate confirmation is refused")
}
