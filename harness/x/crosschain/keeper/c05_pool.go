package keeper

import (
	"math/big"

	sdkmath "cosmossdk.io/math"
	sdk "github.com/cosmos/cosmos-sdk/types"
	banktypes "github.com/cosmos/cosmos-sdk/x/bank/types"
	"github.com/ethereum/go-ethereum/common"

	"github.com/functionx/fx-core/v8/x/crosschain/types"
	erc20keeper "github.com/functionx/fx-core/v8/x/erc20/keeper"
	erc20types "github.com/functionx/fx-core/v8/x/erc20/types"
	"github.com/functionx/fx-core/v8/zzverif/models"
	"github.com/functionx/fx-core/v8/zzverif/rt"
)

const verifBase = "usdt"

var (
	verifUser1      = sdk.AccAddress([]byte{0xa1, 1, 1, 1, 1, 1, 1, 1, 1, 1, 1, 1, 1, 1, 1, 1, 1, 1, 1, 1})
	verifUser2      = sdk.AccAddress([]byte{0xb2, 2, 2, 2, 2, 2, 2, 2, 2, 2, 2, 2, 2, 2, 2, 2, 2, 2, 2, 2})
	verifErc20Token = common.HexToAddress("0x00000000000000000000000000000000000000c1")
)

type verifBridgeEnv struct {
	*verifEnv
	ek          erc20keeper.Keeper
	bank        *models.Bank
	tok         *models.Erc20
	evm         *models.EVM
	bridgeDenom string
}

// verifBridgeState: chain "eth" with one bridged, module-owned token: base coin "usdt", bridge
// denomination eth<contract>, ERC-20 pair; the module escrows bridge-denomination coins equal to
// the base supply (the invariant that keeps holdings withdrawable).
func verifBridgeState() *verifBridgeEnv {
	e, ek, bank, tok, evm := verifWithErc20()
	be := &verifBridgeEnv{verifEnv: e, ek: ek, bank: bank, tok: tok, evm: evm}
	e.setParams(verifParamSets[0], 20000)
	if err := e.k.AddBridgeTokenExecuted(e.ctx, &types.MsgBridgeTokenClaim{TokenContract: verifTokenA, Name: "Tether", Symbol: "USDT", Decimals: 6, ChainName: verifModule}); err != nil {
		panic(err)
	}
	be.bridgeDenom = types.NewBridgeDenom(verifModule, verifTokenA)
	bank.SetDenomMetaData(e.ctx, banktypes.Metadata{Base: verifBase, Display: verifBase, Name: "Tether", Symbol: "USDT",
		DenomUnits: []*banktypes.DenomUnit{{Denom: verifBase, Exponent: 0, Aliases: []string{be.bridgeDenom}}}})
	// as erc20 RegisterNativeCoin does: alias index + bank metadata + token pair
	ek.SetAliasesDenom(e.ctx, verifBase, be.bridgeDenom)
	ek.AddTokenPair(e.ctx, erc20types.TokenPair{Erc20Address: verifErc20Token.Hex(), Denom: verifBase, Enabled: true, ContractOwner: erc20types.OWNER_MODULE})
	evm.Contracts = append(evm.Contracts, verifErc20Token)
	p := erc20types.DefaultParams()
	if err := ek.SetParams(e.ctx, &p); err != nil {
		panic(err)
	}
	return be
}

func verifAmt(name string, bits uint) sdkmath.Int {
	b := rt.BigInt(name)
	rt.Assume(rt.And(b.Sign() >= 0, b.Cmp(new(big.Int).Lsh(big.NewInt(1), bits)) < 0))
	return sdkmath.NewIntFromBigInt(b)
}

// VerifC05SendCancel: send-to-external followed by a cancel attempt, for a module-owned bridged
// token. C05: the transfer gets the id the counter announced, the counter moves by one, the queued
// record carries exactly the creator's destination, token, amount and fee; only the creator can
// cancel; a cancel refunds exactly amount + fee to the creator and removes the entry; a second
// cancel fails. C04: each step moves exactly the stated value (holder <-> in-flight), nobody else
// changes, and the module's escrow of the bridge denomination stays equal to the base supply.
func VerifC05SendCancel() {
	e := verifBridgeState()
	module := models.ModuleAddress(verifModule)
	u1, u2 := verifAmt("user1.balance", 100), verifAmt("user2.balance", 100)
	e.bank.SetBalance(verifUser1, verifBase, u1)
	e.bank.SetBalance(verifUser2, verifBase, u2)
	e.bank.SetBalance(module, e.bridgeDenom, u1.Add(u2)) // escrow == base supply
	amount := verifAmt("amount", 100)
	fee := sdkmath.NewInt([]int64{0, 1, 5}[rt.Choose("fee", 3)])
	nextID := rt.U64("nextTxId")
	rt.Assume(rt.And(nextID >= 1, nextID < 1<<40))
	e.store().Set(types.KeyLastTxPoolID, sdk.Uint64ToBigEndian(nextID))
	rt.Cover("state-built")

	id, err := e.k.AddToOutgoingPool(e.ctx, verifUser1, verifAddrB, sdk.NewCoin(verifBase, amount), sdk.NewCoin(verifBase, fee))
	if err != nil {
		rt.Cover("send-refused")
		rt.Assert(u1.LT(amount.Add(fee)), "a send of up to the holder's balance is never refused (escrow suffices)")
		return
	}
	rt.Cover("sent")
	total := amount.Add(fee)
	rt.Assert(id == nextID, "the transfer gets the announced id")
	rt.Assert(sdk.BigEndianToUint64(e.store().Get(types.KeyLastTxPoolID)) == nextID+1, "the id counter advances by exactly one")
	tx, gerr := e.k.GetUnbatchedTxById(e.ctx, id)
	rt.Assert(gerr == nil, "the transfer waits in the pool")
	if gerr == nil {
		rt.Assert(rt.And(tx.Sender == verifUser1.String(), tx.DestAddress == verifAddrB, tx.Token.Contract == verifTokenA, tx.Fee.Contract == verifTokenA,
			tx.Token.Amount.Equal(amount), tx.Fee.Amount.Equal(fee)), "queued record carries exactly the creator's destination, token, amount and fee")
	}
	rt.Assert(e.bank.Balance(verifUser1, verifBase).Equal(u1.Sub(total)), "sender is charged exactly amount + fee")
	rt.Assert(e.bank.Balance(verifUser2, verifBase).Equal(u2), "nobody else changes")
	rt.Assert(e.bank.Balance(module, e.bridgeDenom).Equal(e.bank.Supply(verifBase)), "escrow of the bridge denomination == base supply")
	rt.Assert(e.bank.Supply(verifBase).Equal(u1.Add(u2).Sub(total)), "base supply drops by what went in flight")
	rt.Assert(e.bank.Balance(verifUser1, e.bridgeDenom).IsZero() && e.bank.Balance(verifUser2, e.bridgeDenom).IsZero(), "no bridge-denomination coins are left with users")

	// cancel by a stranger, then by the creator, then again
	_, err = e.k.RemoveFromOutgoingPoolAndRefund(e.ctx, id, verifUser2)
	rt.Assert(err != nil, "only the creator can cancel")
	rt.Assert(e.bank.Balance(verifUser2, verifBase).Equal(u2), "a refused cancel pays nothing")
	refund, err := e.k.RemoveFromOutgoingPoolAndRefund(e.ctx, id, verifUser1)
	if err == nil {
		rt.Cover("cancelled")
		rt.Assert(rt.And(refund.Denom == verifBase, refund.Amount.Equal(total)), "refund is exactly amount + fee")
		rt.Assert(e.bank.Balance(verifUser1, verifBase).Equal(u1), "creator is made whole")
		rt.Assert(e.bank.Balance(module, e.bridgeDenom).Equal(e.bank.Supply(verifBase)), "escrow == base supply after the refund")
		_, gerr = e.k.GetUnbatchedTxById(e.ctx, id)
		rt.Assert(gerr != nil, "cancelled transfer left the pool")
		_, err = e.k.RemoveFromOutgoingPoolAndRefund(e.ctx, id, verifUser1)
		rt.Assert(err != nil, "a transfer is refunded at most once")
		rt.Assert(e.bank.Balance(verifUser1, verifBase).Equal(u1), "second cancel pays nothing")
	}
}

func verifSmallFee(name string) sdkmath.Int {
	b := rt.BigInt(name)
	rt.Assume(rt.And(b.Sign() >= 0, b.Cmp(big.NewInt(16)) < 0))
	return sdkmath.NewIntFromBigInt(b)
}

// where reports where transfer id currently is: 0 nowhere, 1 pool, 2 batch nonce 1, 3 batch nonce 2, +10 if duplicated.
func (e *verifBridgeEnv) where(id uint64) int {
	w := 0
	if _, err := e.k.GetUnbatchedTxById(e.ctx, id); err == nil {
		w = 1
	}
	for n := uint64(1); n <= 2; n++ {
		if b := e.k.GetOutgoingTxBatch(e.ctx, verifTokenA, n); b != nil {
			for _, tx := range b.Transactions {
				if tx.Id == id {
					if w != 0 {
						return w + 10
					}
					w = int(n) + 1
				}
			}
		}
	}
	return w
}

// VerifC05BatchLifecycle: three pooled transfers with symbolic fees (0..15); a batch request with
// any element limit and base fee; then batch cancellation, or a second batch followed by the
// out-of-order execution of the newer one. Every transfer is at all times in exactly one place;
// batches contain the highest-fee transfers at or above the base fee, unchanged; a cancelled batch
// returns its transfers to the pool unchanged; an executed batch disappears with its transfers
// (settled, never refundable) and cancels exactly the older batches of the token.
func VerifC05BatchLifecycle() {
	e := verifBridgeState()
	e.k.SetLastObservedBlockHeight(e.ctx, 1000, 90)
	nTx := rt.Bound("pooledTransfers", 3, 4)
	var fees []sdkmath.Int
	for i := 0; i < nTx; i++ {
		fees = append(fees, verifSmallFee([]string{"fee1", "fee2", "fee3", "fee4"}[i]))
	}
	for i := 0; i < nTx; i++ {
		tx := &types.OutgoingTransferTx{Id: uint64(i + 1), Sender: verifUser1.String(), DestAddress: verifAddrB,
			Token: types.NewERC20Token(sdkmath.NewInt(int64(100+i)), verifTokenA), Fee: types.NewERC20Token(fees[i], verifTokenA)}
		if err := e.k.AddUnbatchedTx(e.ctx, tx); err != nil {
			rt.Assert(false, "harness: cannot fill pool")
		}
	}
	e.store().Set(types.KeyLastTxPoolID, sdk.Uint64ToBigEndian(uint64(nTx+1)))
	maxEl := uint(1 + rt.Choose("maxElements", nTx))
	baseFee := sdkmath.NewInt([]int64{0, 3, 9}[rt.Choose("baseFee", 3)])
	rt.Cover("state-built")

	b1, err := e.k.BuildOutgoingTxBatch(e.ctx, verifTokenA, verifAddrB, maxEl, sdkmath.ZeroInt(), baseFee)
	if err != nil {
		rt.Cover("no-batch")
		for id := uint64(1); id <= uint64(nTx); id++ {
			rt.Assert(e.where(id) == 1, "a refused batch request leaves every transfer in the pool")
		}
		return
	}
	rt.Cover("batch-built")
	rt.Assert(b1.BatchNonce == 1 && len(b1.Transactions) >= 1 && uint(len(b1.Transactions)) <= maxEl, "batch nonce announced, size within the limit")
	minIn := sdkmath.NewInt(1000)
	for _, tx := range b1.Transactions {
		orig := fees[tx.Id-1]
		rt.Assert(rt.And(tx.Fee.Amount.Equal(orig), tx.Token.Amount.Equal(sdkmath.NewInt(int64(99)+int64(tx.Id))), tx.DestAddress == verifAddrB, tx.Sender == verifUser1.String()),
			"batched transfer is unchanged")
		rt.Assert(tx.Fee.Amount.GTE(baseFee), "batched transfer pays at least the base fee")
		minIn = sdkmath.MinInt(minIn, tx.Fee.Amount)
	}
	for id := uint64(1); id <= uint64(nTx); id++ {
		w := e.where(id)
		rt.Assert(w == 1 || w == 2, "every transfer is in exactly one place (pool or the batch)")
		if w == 1 && uint(len(b1.Transactions)) < maxEl {
			rt.Assert(fees[id-1].LTE(baseFee), "a transfer left in the pool of a non-full batch does not exceed the base fee")
		}
		if w == 1 {
			rt.Assert(rt.Or(fees[id-1].LTE(minIn), fees[id-1].LTE(baseFee)), "highest fees are batched first")
		}
	}
	switch rt.Choose("then", 2) {
	case 0: // cancel the batch
		if e.k.CancelOutgoingTxBatch(e.ctx, verifTokenA, 1) != nil {
			rt.Assert(false, "an existing batch can be cancelled")
		}
		rt.Cover("batch-cancelled")
		for id := uint64(1); id <= uint64(nTx); id++ {
			rt.Assert(e.where(id) == 1, "cancelled batch returned every transfer to the pool")
			tx, gerr := e.k.GetUnbatchedTxById(e.ctx, id)
			if gerr == nil {
				rt.Assert(rt.And(tx.Fee.Amount.Equal(fees[id-1]), tx.Token.Amount.Equal(sdkmath.NewInt(int64(99)+int64(id)))), "returned transfer is unchanged")
			}
		}
	default: // build a second batch at a later height and execute it first
		e.ctx = e.ctx.WithBlockHeight(101)
		b2, err := e.k.BuildOutgoingTxBatch(e.ctx, verifTokenA, verifAddrB, uint(nTx), sdkmath.ZeroInt(), sdkmath.ZeroInt())
		if err != nil {
			rt.Cover("no-second-batch")
			return
		}
		rt.Cover("second-batch")
		var in2 []uint64
		for _, tx := range b2.Transactions {
			in2 = append(in2, tx.Id)
		}
		e.k.OutgoingTxBatchExecuted(e.ctx, verifTokenA, b2.BatchNonce)
		rt.Assert(e.k.GetOutgoingTxBatch(e.ctx, verifTokenA, 2) == nil && e.k.GetOutgoingTxBatch(e.ctx, verifTokenA, 1) == nil, "executed batch is gone and the older batch of the token is cancelled")
		for id := uint64(1); id <= uint64(nTx); id++ {
			settled := false
			for _, x := range in2 {
				if x == id {
					settled = true
				}
			}
			if settled {
				rt.Assert(e.where(id) == 0, "executed transfer is settled: in no pool or batch, never refundable")
				_, rerr := e.k.RemoveFromOutgoingPoolAndRefund(e.ctx, id, verifUser1)
				rt.Assert(rerr != nil, "an executed transfer can never be refunded")
			} else {
				rt.Assert(e.where(id) == 1, "transfers of the cancelled older batch are back in the pool")
			}
		}
	}
}

// VerifC05IncreaseFee: MsgIncreaseBridgeFee on a pooled transfer, paid by its creator or by
// somebody else, in bridge-denomination coins. Raising the fee costs the payer exactly the added
// fee; the transfer keeps its id, creator, destination, token and amount, its fee grows by
// exactly the added fee and it is still in exactly one place; nobody else's balance moves; a
// refused request (unknown id, payer cannot pay) changes nothing.
func VerifC05IncreaseFee() {
	e := verifBridgeState()
	module := models.ModuleAddress(verifModule)
	amount := verifAmt("amount", 64)
	rt.Assume(amount.IsPositive())
	fee := verifSmallFee("fee")
	e.bank.SetBalance(verifUser1, verifBase, amount.Add(fee))
	e.bank.SetBalance(module, e.bridgeDenom, amount.Add(fee))
	e.store().Set(types.KeyLastTxPoolID, sdk.Uint64ToBigEndian(1))
	id, err := e.k.AddToOutgoingPool(e.ctx, verifUser1, verifAddrB, sdk.NewCoin(verifBase, amount), sdk.NewCoin(verifBase, fee))
	if err != nil {
		rt.Assert(false, "harness: cannot queue the transfer")
		return
	}
	payer := verifUser1
	if rt.Bool("paidBySomebodyElse") {
		payer = verifUser2
	}
	creatorWallet := verifSmallFee("creator.bridgeCoins")
	e.bank.SetBalance(verifUser1, e.bridgeDenom, creatorWallet)
	wallet := creatorWallet
	if !payer.Equals(verifUser1) {
		wallet = verifSmallFee("payer.bridgeCoins")
		e.bank.SetBalance(payer, e.bridgeDenom, wallet)
	}
	add := verifSmallFee("addedFee")
	target := id
	if rt.Bool("unknownId") {
		target = 9
	}
	rt.Cover("state-built")
	before := e.ms.Snapshot()
	user1Base := e.bank.Balance(verifUser1, verifBase)
	_, err = MsgServer{Keeper: e.k}.IncreaseBridgeFee(e.ctx, &types.MsgIncreaseBridgeFee{ChainName: verifModule, TransactionId: target, Sender: payer.String(), AddBridgeFee: sdk.NewCoin(e.bridgeDenom, add)})
	if err != nil {
		rt.Cover("refused")
		rt.Assert(e.ms.Equal(before), "a refused fee increase changes nothing")
		return
	}
	rt.Cover("raised")
	rt.Assert(rt.And(target == id, add.IsPositive(), wallet.GTE(add)), "a fee increase takes effect only on an existing pooled transfer, for a positive amount the payer holds")
	rt.Assert(e.bank.Balance(payer, e.bridgeDenom).Equal(wallet.Sub(add)), "raising the fee costs the payer exactly the added fee")
	rt.Assert(e.bank.Balance(verifUser1, verifBase).Equal(user1Base), "the creator's other holdings are untouched")
	if !payer.Equals(verifUser1) {
		rt.Assert(e.bank.Balance(verifUser1, e.bridgeDenom).Equal(creatorWallet), "a fee raised by somebody else costs the creator nothing")
	}
	rt.Assert(e.where(id) == 1, "the transfer is still in exactly one place")
	tx, gerr := e.k.GetUnbatchedTxById(e.ctx, id)
	if gerr == nil {
		rt.Assert(rt.And(tx.Id == id, tx.Sender == verifUser1.String(), tx.DestAddress == verifAddrB, tx.Token.Contract == verifTokenA, tx.Token.Amount.Equal(amount)), "id, creator, destination, token and amount are unchanged")
		rt.Assert(rt.And(tx.Fee.Contract == verifTokenA, tx.Fee.Amount.Equal(fee.Add(add))), "the fee grew by exactly the added fee")
	}
	n := 0
	for _, p := range e.k.GetUnbatchedTransactions(e.ctx) {
		if p.Id == id {
			n++
		}
	}
	rt.Assert(n == 1, "the pool holds the transfer exactly once (no stale entry under the old fee)")
}

// VerifC05OutgoingBridgeCall: an outgoing bridge call carrying one bridged token, from creation
// to settlement by an observed result (success or failure) or by the timeout sweep. The call
// gets the announced nonce (counter + 1), carries exactly the sender, refund address, target,
// token, amount, call data and memo its creator supplied, and costs the creator exactly the
// amount; it is settled exactly once: an executed call is gone and never refunded, a failed or
// timed-out call refunds exactly the amount to the refund address (as base coins for a call made
// by message, as ERC-20 for a call made through the precompile) and is gone; a second sweep or
// refund attempt finds nothing.
func VerifC05OutgoingBridgeCall() {
	e := verifBridgeState()
	e.k.SetLastObservedBlockHeight(e.ctx, 1000, 90)
	module := models.ModuleAddress(verifModule)
	u1 := verifAmt("user1.balance", 100)
	amount := verifAmt("amount", 64)
	rt.Assume(rt.And(amount.IsPositive(), u1.GTE(amount)))
	e.bank.SetBalance(verifUser1, verifBase, u1)
	e.bank.SetBalance(module, e.bridgeDenom, u1) // escrow == base supply
	sender := common.BytesToAddress(verifUser1)
	to := common.HexToAddress(verifTargetContract)
	next := rt.U64("bridgeCallCounter")
	rt.Assume(rt.And(next >= 1, next < 1<<40))
	e.store().Set(types.KeyLastBridgeCallID, sdk.Uint64ToBigEndian(next))
	data, memo := []byte{0xaa, 0xbb}, []byte{0x01}
	rt.Cover("state-built")
	nonce, err := e.k.AddOutgoingBridgeCall(e.ctx, sender, sender, sdk.NewCoins(sdk.NewCoin(verifBase, amount)), to, data, memo, 0)
	if err != nil {
		rt.Cover("call-refused")
		return
	}
	fromMsg := rt.Bool("madeByMessage")
	if fromMsg {
		e.k.SetBridgeCallFromMsg(e.ctx, nonce)
	}
	rt.Assert(nonce == next && sdk.BigEndianToUint64(e.store().Get(types.KeyLastBridgeCallID)) == next+1, "the call gets the announced nonce and the counter moves by one")
	call, found := e.k.GetOutgoingBridgeCallByNonce(e.ctx, nonce)
	rt.Assert(found, "the call is on record")
	if found {
		rt.Assert(rt.And(call.Sender == sender.Hex(), call.Refund == sender.Hex(), call.To == to.Hex(), call.Data == "aabb", call.Memo == "01",
			len(call.Tokens) == 1 && call.Tokens[0].Contract == verifTokenA && call.Tokens[0].Amount.Equal(amount)), "the record carries exactly what the creator supplied")
	}
	rt.Assert(e.bank.Balance(verifUser1, verifBase).Equal(u1.Sub(amount)), "the creator pays exactly the amount")
	tokBefore := sdkmath.NewIntFromBigInt(e.tok.BalanceOf(verifErc20Token, sender))
	how := rt.Choose("settledBy", 3) // observed success, observed failure, timeout sweep
	switch how {
	case 0:
		e.k.BridgeCallResultHandler(e.ctx, &types.MsgBridgeCallResultClaim{ChainName: verifModule, Nonce: nonce, TxOrigin: verifAddrB, Success: true})
	case 1:
		e.k.BridgeCallResultHandler(e.ctx, &types.MsgBridgeCallResultClaim{ChainName: verifModule, Nonce: nonce, TxOrigin: verifAddrB, Success: false, Cause: "aa"})
	default:
		e.k.SetLastObservedBlockHeight(e.ctx, call.Timeout, 95)
		e.k.cleanupTimeOutBridgeCall(e.ctx)
	}
	rt.Cover("settled")
	rt.Assert(!e.k.HasOutgoingBridgeCall(e.ctx, nonce) && !e.k.HasBridgeCallFromMsg(e.ctx, nonce), "a settled call is gone")
	coins := e.bank.Balance(verifUser1, verifBase)
	toks := sdkmath.NewIntFromBigInt(e.tok.BalanceOf(verifErc20Token, sender))
	if how == 0 {
		rt.Assert(rt.And(coins.Equal(u1.Sub(amount)), toks.Equal(tokBefore)), "an executed call is never refunded")
	} else if fromMsg {
		rt.Assert(rt.And(coins.Equal(u1), toks.Equal(tokBefore)), "a failed or timed-out call made by message refunds exactly the amount as coins")
	} else {
		rt.Assert(rt.And(coins.Equal(u1.Sub(amount)), toks.Equal(tokBefore.Add(amount))), "a failed or timed-out call made through the precompile refunds exactly the amount as ERC-20")
	}
	// settled exactly once: another sweep finds nothing
	snap := e.ms.Snapshot()
	e.k.cleanupTimeOutBridgeCall(e.ctx)
	rt.Assert(e.ms.Equal(snap), "a settled call is not refunded again")
}
