package keeper

import (
	"fmt"
	"github.com/ethereum/go-ethereum/common"
	"math/big"

	sdkmath "cosmossdk.io/math"
	codectypes "github.com/cosmos/cosmos-sdk/codec/types"
	sdk "github.com/cosmos/cosmos-sdk/types"

	fxtypes "github.com/functionx/fx-core/v8/types"
	"github.com/functionx/fx-core/v8/x/crosschain/types"
	"github.com/functionx/fx-core/v8/zzverif/models"
	"github.com/functionx/fx-core/v8/zzverif/rt"
)

var verifPowerReduction = sdkmath.NewIntFromUint64(1_000_000_000_000_000_000)

// VerifC01ClaimStep: one step of MsgServer.Claim (vote admission, per-oracle contiguity, tally,
// observation, deferred handler, cleanup) from an arbitrary state satisfying the representation
// invariant (R3 votes / per-oracle nonces, R4 observed => nonce <= last observed, R2 total power
// >= power of online oracles). Stakes, total power, nonces and heights are symbolic.
//
// C01 obligations: the last observed nonce stays or advances by exactly one, and only to the
// claim's nonce and only for an attestation not observed before; a successful vote moves the
// voter's own nonce by exactly one to the claim nonce and is recorded once.
// C02 obligations: a vote is recorded only for an online oracle acting through its registered
// bridger; the event is observed only if 100 * (power of the distinct registered voters) >= 66 *
// recorded total power, as an exact inequality over the integers.
func VerifC01ClaimStep() {
	ctxH := rt.I64("ctxHeight")
	rt.Assume(rt.And(ctxH >= 1, ctxH < 1<<40))
	e := verifNewEnv(1)
	e.ctx = e.ctx.WithBlockHeight(ctxH)
	e.setParams(verifParamSets[0], 20000)
	n := rt.Bound("oracles", 2, 3)

	// registry with symbolic stakes
	power := make([]sdkmath.Int, n)
	online := make([]bool, n)
	onlinePower := sdkmath.ZeroInt()
	for i := 0; i < n; i++ {
		p := fmt.Sprintf("oracle%d.", i)
		st := rt.BigInt(p + "stake")
		rt.Assume(rt.And(st.Sign() >= 0, st.Cmp(new(big.Int).Lsh(big.NewInt(1), 100)) < 0))
		stake := sdkmath.NewIntFromBigInt(st)
		online[i] = rt.Bool(p + "online")
		o := e.verifAddOracle(i, online[i], 1, stake, 0)
		power[i] = o.GetPower()
		if online[i] {
			onlinePower = onlinePower.Add(power[i])
		}
	}
	// R2: recorded total power is at least the power of the online oracles
	tp := rt.BigInt("lastTotalPower")
	rt.Assume(rt.And(tp.Sign() >= 0, tp.Cmp(new(big.Int).Lsh(big.NewInt(1), 110)) < 0))
	totalPower := sdkmath.NewIntFromBigInt(tp)
	rt.Assume(totalPower.GTE(onlinePower))
	e.store().Set(types.LastTotalPowerKey, e.k.cdc.MustMarshal(&sdk.IntProto{Int: totalPower}))

	L := rt.U64("lastObservedEventNonce")
	rt.Assume(L < 1<<40)
	e.k.SetLastObservedEventNonce(e.ctx, L)
	if rt.Bool("observedHeightPresent") {
		e.k.SetLastObservedBlockHeight(e.ctx, rt.U64("observedExternalHeight"), rt.U64("observedAtFxHeight"))
	}
	// per-oracle last event nonce: present with any value, or absent
	present := make([]bool, n)
	last := make([]uint64, n)
	for i := 0; i < n; i++ {
		p := fmt.Sprintf("oracle%d.", i)
		present[i] = rt.Bool(p + "lastNoncePresent")
		if present[i] {
			last[i] = rt.U64(p + "lastNonce")
			e.k.SetLastEventNonceByOracle(e.ctx, verifOracleIdent(i).oracle, last[i])
		}
	}

	// the incoming claim, sent by oracle `voter` (index n: a bridger nobody registered)
	voter := rt.Choose("voter", n+1)
	nonce := rt.U64("claim.eventNonce")
	height := rt.U64("claim.blockHeight")
	rt.Assume(rt.And(nonce >= 1, nonce < 1<<40, height >= 1))
	bridger := verifOracleIdent(voter).bridger
	// (a bridge-call result claim: like SendToFx it is parked for deferred execution when observed)
	claim := &types.MsgBridgeCallResultClaim{EventNonce: nonce, BlockHeight: height, Nonce: 7, TxOrigin: verifAddrB, Success: true,
		BridgerAddress: bridger.String(), ChainName: verifModule}

	// an attestation for (nonce, hash) may already exist, with any R3-consistent votes
	attPresent := rt.Bool("attestationPresent")
	observedBefore := false
	voted := make([]bool, n)
	if attPresent {
		att := &types.Attestation{Height: 1}
		if rt.Bool("staleVoteOfUnbondedOracle") {
			// a vote left behind by an oracle that has since unbonded (its record is gone): it
			// carries no power
			att.Votes = append(att.Votes, verifOracleIdent(9).oracle.String())
		}
		for i := 0; i < n; i++ {
			voted[i] = rt.Bool(fmt.Sprintf("oracle%d.alreadyVoted", i))
			if voted[i] {
				att.Votes = append(att.Votes, verifOracleIdent(i).oracle.String())
				rt.Assume(rt.And(present[i], last[i] >= nonce)) // R3
			}
		}
		observedBefore = rt.Bool("attestationObserved")
		if observedBefore {
			rt.Assume(nonce <= L) // R4
		}
		att.Observed = observedBefore
		anyClaim, err := codectypes.NewAnyWithValue(claim)
		if err != nil {
			rt.Assert(false, "harness: cannot pack claim")
		}
		att.Claim = anyClaim
		e.k.SetAttestation(e.ctx, nonce, claim.ClaimHash(), att)
	}
	rt.Cover("state-built")

	anyClaim, err := codectypes.NewAnyWithValue(claim)
	if err != nil {
		rt.Assert(false, "harness: cannot pack claim")
	}
	_, err = MsgServer{Keeper: e.k}.Claim(e.ctx, &types.MsgClaim{ChainName: verifModule, BridgerAddress: bridger.String(), Claim: anyClaim})

	L2 := e.k.GetLastObservedEventNonce(e.ctx)
	if err != nil {
		rt.Cover("vote-rejected")
		rt.Assert(L2 == L, "rejected vote leaves the last observed nonce alone")
		return
	}
	rt.Cover("vote-accepted")
	// C02 admission
	rt.Assert(voter < n, "accepted vote comes from a registered bridger")
	if voter >= n {
		return
	}
	rt.Assert(online[voter], "accepted vote comes from an online oracle")
	// C01 per-oracle contiguity
	prev := last[voter]
	if !present[voter] {
		prev = 0
		if L >= 1 {
			prev = L - 1
		}
	}
	rt.Assert(nonce == prev+1, "accepted vote is for the voter's next nonce (no skip, no repeat)")
	rt.Assert(e.k.GetLastEventNonceByOracle(e.ctx, verifOracleIdent(voter).oracle) == nonce, "voter's own nonce advanced to the claim nonce")
	rt.Assert(!voted[voter], "an oracle never votes twice for one attestation")
	att := e.k.GetAttestation(e.ctx, nonce, claim.ClaimHash())
	stillThere := att != nil
	if stillThere {
		cnt := 0
		for _, v := range att.Votes {
			if v == verifOracleIdent(voter).oracle.String() {
				cnt++
			}
		}
		rt.Assert(cnt == 1, "voter recorded exactly once")
	}
	// C01 observation
	rt.Assert(rt.Or(L2 == L, L2 == L+1), "last observed nonce stays or advances by exactly one")
	if L2 != L {
		rt.Cover("observed-now")
		rt.Assert(nonce == L+1, "only the next event nonce can be observed")
		rt.Assert(!observedBefore, "an observed attestation is never applied again")
		_, pending := e.k.GetPendingExecuteClaim(e.ctx, nonce)
		rt.Assert(pending, "observed claim parked for execution exactly under its nonce")
		// C02 quorum, exact
		sum := power[voter]
		for i := 0; i < n; i++ {
			if voted[i] && i != voter {
				sum = sum.Add(power[i])
			}
		}
		rt.Known("C02-quorum-truncation", sum.MulRaw(100).LT(totalPower.MulRaw(66)))
		rt.Assert(sum.MulRaw(100).GTE(totalPower.MulRaw(66)), "observed only with >= 66% of the recorded total power")
	} else {
		rt.Cover("not-observed")
	}
}

// VerifC01RebondNoDoubleVote: an oracle that voted for a still-pending event, was removed by
// governance, withdrew its stake and later bonded again must not be able to add a second vote to
// that same attestation (its power would be counted twice in the tally).
func VerifC01RebondNoDoubleVote() {
	e := verifNewEnv(100)
	bank, _ := e.attachBankAndStaking()
	view := &models.StakingView{}
	e.k.stakingKeeper = view
	p := e.setParams(verifParamSets[0], 20000)
	// three oracles so that one vote is no quorum
	for i := 0; i < 3; i++ {
		e.verifAddOracle(i, true, 1, p.DelegateThreshold.Amount, 0)
	}
	e.k.SetLastTotalPower(e.ctx)
	L := rt.U64("lastObservedEventNonce")
	rt.Assume(rt.And(L >= 1, L < 1<<40))
	e.k.SetLastObservedEventNonce(e.ctx, L)
	for i := 0; i < 3; i++ {
		e.k.SetLastEventNonceByOracle(e.ctx, verifOracleIdent(i).oracle, L)
	}
	id := verifOracleIdent(0)
	mkClaim := func(nonce uint64) *types.MsgBridgeCallResultClaim {
		return &types.MsgBridgeCallResultClaim{EventNonce: nonce, BlockHeight: 77, Nonce: 7, TxOrigin: verifAddrB, Success: true,
			BridgerAddress: id.bridger.String(), ChainName: verifModule}
	}
	vote := func(nonce uint64) error {
		anyClaim, err := codectypes.NewAnyWithValue(mkClaim(nonce))
		if err != nil {
			return err
		}
		_, err = MsgServer{Keeper: e.k}.Claim(e.ctx, &types.MsgClaim{ChainName: verifModule, BridgerAddress: id.bridger.String(), Claim: anyClaim})
		return err
	}
	if vote(L+1) != nil {
		rt.Assert(false, "harness: first vote refused")
	}
	rt.Cover("voted")
	// governance removes the oracle; it goes offline; the stake unbonds and is released; it withdraws
	e.k.SetProposalOracle(e.ctx, &types.ProposalOracle{Oracles: []string{verifOracleIdent(1).oracle.String(), verifOracleIdent(2).oracle.String()}})
	o, _ := e.k.GetOracle(e.ctx, id.oracle)
	o.Online = false
	e.k.SetOracle(e.ctx, o)
	e.k.SetLastTotalPower(e.ctx)
	bank.SetBalance(o.GetDelegateAddress(verifModule), fxtypes.DefaultDenom, o.DelegateAmount)
	if _, err := (MsgServer{Keeper: e.k}).UnbondedOracle(e.ctx, &types.MsgUnbondedOracle{ChainName: verifModule, OracleAddress: id.oracle.String()}); err != nil {
		rt.Assert(false, "harness: unbond refused")
	}
	rt.Cover("unbonded")
	// governance approves it again and it bonds again
	e.k.SetProposalOracle(e.ctx, &types.ProposalOracle{Oracles: []string{id.oracle.String(), verifOracleIdent(1).oracle.String(), verifOracleIdent(2).oracle.String()}})
	if _, err := (MsgServer{Keeper: e.k}).BondedOracle(e.ctx, &types.MsgBondedOracle{ChainName: verifModule, OracleAddress: id.oracle.String(), BridgerAddress: id.bridger.String(),
		ExternalAddress: id.external, ValidatorAddress: sdk.ValAddress(make([]byte, 20)).String(), DelegateAmount: types.NewDelegateAmount(p.DelegateThreshold.Amount)}); err != nil {
		rt.Assert(false, "harness: re-bond refused")
	}
	rt.Cover("re-bonded")
	// it votes again: for the already observed nonce L (tolerated by the nonce rule for a fresh oracle), then L+1
	_ = vote(L)
	_ = vote(L + 1)
	att := e.k.GetAttestation(e.ctx, L+1, mkClaim(L+1).ClaimHash())
	if att != nil {
		cnt := 0
		for _, v := range att.Votes {
			if v == id.oracle.String() {
				cnt++
			}
		}
		rt.Assert(cnt <= 1, "an oracle is never recorded twice on one attestation, not even after leaving and bonding again")
	}
	rt.Assert(e.k.GetLastObservedEventNonce(e.ctx) == L, "one oracle out of three equal ones cannot observe an event by voting twice")
}

// VerifC01ExecuteOnceReentrant: a parked inbound bridge call is executed (deferred execution of
// an observed claim); the contract it calls re-enters and asks for the execution of the same
// event nonce again (as a contract can through the crosschain precompile). The nested request
// finds nothing to execute, and the event's effects are applied exactly once.
func VerifC01ExecuteOnceReentrant() {
	e := verifBridgeState()
	e.k.SetLastObservedBlockHeight(e.ctx, 1000, 90)
	module := models.ModuleAddress(verifModule)
	to := common.HexToAddress(verifTargetContract)
	e.evm.Contracts = append(e.evm.Contracts, to)
	x := verifAmt("deposit", 64)
	rt.Assume(x.IsPositive())
	preTo := verifAmt("balance.to", 64)
	e.bank.SetBalance(to.Bytes(), verifBase, preTo)
	e.bank.SetBalance(module, e.bridgeDenom, preTo) // escrow == base supply
	nonce := uint64(7)
	claim := &types.MsgBridgeCallClaim{ChainName: verifModule, BridgerAddress: verifOracleIdent(0).bridger.String(), EventNonce: nonce, BlockHeight: 900,
		Sender: verifAddrB, Refund: verifTargetContract, To: verifTargetContract, TokenContracts: []string{verifTokenA}, Amounts: []sdkmath.Int{x},
		Data: "aabb", Value: sdkmath.ZeroInt(), Memo: "", TxOrigin: verifAddrB}
	e.k.SavePendingExecuteClaim(e.ctx, claim)
	reentered, nestedRan := 0, false
	reenter := rt.Bool("calleeReenters")
	e.evm.BeforeCall = func(ctx sdk.Context) {
		if reenter && reentered == 0 {
			reentered++
			nestedRan = e.k.ExecuteClaim(ctx, nonce) == nil
		}
	}
	tokBefore := sdkmath.NewIntFromBigInt(e.tok.BalanceOf(verifErc20Token, to))
	rt.Cover("state-built")
	err := e.k.ExecuteClaim(e.ctx, nonce)
	if err != nil {
		rt.Cover("failed")
		return
	}
	rt.Cover("executed")
	rt.Assert(!nestedRan, "a nested request to execute the same event finds nothing to execute")
	got := sdkmath.NewIntFromBigInt(e.tok.BalanceOf(verifErc20Token, to)).Sub(tokBefore)
	rt.Assert(got.Equal(x), "the event's deposit is credited exactly once")
	_, still := e.k.GetPendingExecuteClaim(e.ctx, nonce)
	rt.Assert(!still, "the executed claim is consumed")
	rt.Assert(e.k.ExecuteClaim(e.ctx, nonce) != nil, "an executed claim cannot be executed again")
}
