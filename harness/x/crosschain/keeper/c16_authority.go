package keeper

import (
	"github.com/functionx/fx-core/v8/x/crosschain/types"
	"github.com/functionx/fx-core/v8/zzverif/rt"
)

// verifForeignAuthority returns an arbitrary string different from the keeper's authority.
func verifForeignAuthority(authority string) string {
	lens := []int{0, len(authority), len(authority) + 1}
	s := rt.Str("authority", lens[rt.Choose("authority.len", len(lens))])
	rt.Assume(rt.Not(rt.StrEq(s, authority)))
	return s
}

// VerifC16Crosschain: UpdateParams and UpdateChainOracles with any authority other than the
// keeper's are rejected and write nothing (dependencies are nil: going past the guard would
// either write or dereference one of them).
func VerifC16Crosschain() {
	e := verifNewEnv(10)
	auth := verifForeignAuthority(e.k.authority)
	before := e.ms.TotalWrites()
	srv := MsgServer{Keeper: e.k}
	var err error
	switch rt.Choose("handler", 2) {
	case 0:
		_, err = srv.UpdateParams(e.ctx, &types.MsgUpdateParams{ChainName: verifModule, Authority: auth, Params: types.DefaultParams()})
	default:
		_, err = srv.UpdateChainOracles(e.ctx, &types.MsgUpdateChainOracles{ChainName: verifModule, Authority: auth,
			Oracles: []string{verifOracleIdent(0).oracle.String()}})
	}
	rt.Cover("called")
	rt.Assert(err != nil, "foreign authority is rejected")
	rt.Assert(e.ms.TotalWrites() == before, "rejected privileged message writes nothing")
}

// VerifC16CrosschainAccepts: witness that the same requests are executed for the right authority
// (guards against a vacuous pass of the harness above).
func VerifC16CrosschainAccepts() {
	e := verifNewEnv(10)
	srv := MsgServer{Keeper: e.k}
	before := e.ms.TotalWrites()
	_, err := srv.UpdateParams(e.ctx, &types.MsgUpdateParams{ChainName: verifModule, Authority: e.k.authority, Params: types.DefaultParams()})
	rt.Assert(err == nil, "governance authority is accepted")
	rt.Assert(e.ms.TotalWrites() > before, "accepted parameter update is written")
	rt.Cover("accepted")
}
