package keeper

import (
	sdkmath "cosmossdk.io/math"
	sdk "github.com/cosmos/cosmos-sdk/types"
	banktypes "github.com/cosmos/cosmos-sdk/x/bank/types"
	"github.com/ethereum/go-ethereum/common"

	fxtypes "github.com/functionx/fx-core/v8/types"
	"github.com/functionx/fx-core/v8/x/crosschain/types"
	"github.com/functionx/fx-core/v8/zzverif/models"
	"github.com/functionx/fx-core/v8/zzverif/rt"
)

// VerifC04DepositWithdraw: an observed deposit (SendToFx, non-IBC target) followed by a withdrawal
// request, for a module-owned bridged token and for the native FX coin. Deposit: the receiver's
// holdings (base coin, or ERC-20 when the target is "erc20") grow by exactly the deposited amount,
// nobody else changes, total holdings grow by exactly the deposit, and for the module-owned token
// the module's escrow of the bridge denomination stays equal to the base supply. Withdrawal: any
// amount + fee up to the holder's balance is accepted (never refused for lack of escrow) and moves
// exactly amount + fee from the holder into the pool.
func VerifC04DepositWithdraw() {
	e := verifBridgeState()
	module := models.ModuleAddress(verifModule)
	fx := rt.Bool("nativeFX")
	denom := verifBase
	token := verifTokenA
	if fx {
		denom = fxtypes.DefaultDenom
		token = "0x00000000000000000000000000000000000000f0"
		if err := e.k.AddBridgeTokenExecuted(e.ctx, &types.MsgBridgeTokenClaim{TokenContract: token, Name: "Function X", Symbol: fxtypes.DefaultDenom, Decimals: 18, ChainName: verifModule}); err != nil {
			rt.Assert(false, "harness: cannot register FX bridge token")
		}
		e.bank.SetDenomMetaData(e.ctx, banktypes.Metadata{Base: fxtypes.DefaultDenom, Display: "FX", Name: "Function X", Symbol: "FX",
			DenomUnits: []*banktypes.DenomUnit{{Denom: fxtypes.DefaultDenom, Exponent: 0}}})
	}
	u1, u2 := verifAmt("user1.balance", 100), verifAmt("user2.balance", 100)
	locked := verifAmt("bridge.locked", 100) // FX locked in the chain module == FX living on the external chain
	e.bank.SetBalance(verifUser1, denom, u1)
	e.bank.SetBalance(verifUser2, denom, u2)
	if fx {
		e.bank.SetBalance(module, denom, locked)
	} else {
		e.bank.SetBalance(module, e.bridgeDenom, u1.Add(u2)) // escrow == base supply
	}
	x := verifAmt("deposit", 100)
	rt.Assume(x.IsPositive())
	if fx {
		rt.Assume(x.LTE(locked)) // the external contract cannot release more FX than was bridged out
	}
	toErc20 := !fx && rt.Bool("targetErc20")
	target := ""
	if toErc20 {
		target = "6572633230" // hex("erc20")
	}
	claim := &types.MsgSendToFxClaim{EventNonce: 3, BlockHeight: 900, TokenContract: token, Amount: x, Sender: verifAddrB,
		Receiver: verifUser1.String(), TargetIbc: target, BridgerAddress: verifOracleIdent(0).bridger.String(), ChainName: verifModule}
	rt.Cover("state-built")
	if err := e.k.SendToFxExecuted(e.ctx, claim); err != nil {
		rt.Cover("deposit-failed")
		rt.Assert(false, "a deposit of an observed event is not refused")
		return
	}
	rt.Cover("deposited")
	u1Hex := common.BytesToAddress(verifUser1)
	tok1 := sdkmath.NewIntFromBigInt(e.tok.BalanceOf(verifErc20Token, u1Hex))
	if toErc20 {
		rt.Assert(tok1.Equal(x), "receiver is credited exactly the deposit, as ERC-20")
		rt.Assert(e.bank.Balance(verifUser1, denom).Equal(u1), "receiver's coins unchanged")
	} else {
		rt.Assert(e.bank.Balance(verifUser1, denom).Equal(u1.Add(x)), "receiver is credited exactly the deposit")
		rt.Assert(tok1.IsZero(), "no ERC-20 appears")
	}
	rt.Assert(e.bank.Balance(verifUser2, denom).Equal(u2), "nobody else changes")
	if fx {
		rt.Assert(e.bank.Balance(module, denom).Equal(locked.Sub(x)), "FX comes out of the chain module's locked balance")
		rt.Assert(e.bank.Supply(denom).Equal(u1.Add(u2).Add(locked)), "FX supply unchanged")
	} else {
		rt.Assert(e.bank.Supply(denom).Equal(u1.Add(u2).Add(x)), "base supply grows by exactly the deposit")
		rt.Assert(e.bank.Balance(module, e.bridgeDenom).Equal(e.bank.Supply(denom)), "escrow of the bridge denomination == base supply")
		rt.Assert(e.bank.Balance(verifUser1, e.bridgeDenom).IsZero(), "no bridge-denomination coins are left with the receiver")
	}
	if toErc20 {
		return
	}
	// withdrawal: anything up to the balance is accepted
	have := e.bank.Balance(verifUser1, denom)
	amount := verifAmt("withdraw.amount", 101)
	fee := sdkmath.NewInt(int64(rt.Choose("withdraw.fee", 2)))
	rt.Assume(amount.Add(fee).LTE(have))
	rt.Assume(amount.IsPositive())
	_, err := e.k.AddToOutgoingPool(e.ctx, verifUser1, verifAddrB, sdk.NewCoin(denom, amount), sdk.NewCoin(denom, fee))
	rt.Assert(err == nil, "a withdrawal of up to the holder's balance is never refused for lack of escrow")
	if err == nil {
		rt.Cover("withdrawn")
		rt.Assert(e.bank.Balance(verifUser1, denom).Equal(have.Sub(amount).Sub(fee)), "holder pays exactly amount + fee")
		rt.Assert(e.bank.Balance(verifUser2, denom).Equal(u2), "nobody else changes")
		if !fx {
			rt.Assert(e.bank.Balance(module, e.bridgeDenom).Equal(e.bank.Supply(denom)), "escrow == base supply after the withdrawal request")
		} else {
			rt.Assert(e.bank.Balance(module, denom).Equal(locked.Sub(x).Add(amount).Add(fee)), "FX in flight is locked in the chain module")
		}
	}
}

// inFlight: value queued in the pool or held in batches 1..2 of token A
func (e *verifBridgeEnv) inFlight() sdkmath.Int {
	total := sdkmath.ZeroInt()
	for _, tx := range e.k.GetUnbatchedTransactions(e.ctx) {
		total = total.Add(tx.Token.Amount).Add(tx.Fee.Amount)
	}
	for n := uint64(1); n <= 2; n++ {
		if b := e.k.GetOutgoingTxBatch(e.ctx, verifTokenA, n); b != nil {
			for _, tx := range b.Transactions {
				total = total.Add(tx.Token.Amount).Add(tx.Fee.Amount)
			}
		}
	}
	return total
}

// VerifC04InFlightConservation: two withdrawal requests of one holder (symbolic amounts and fees),
// a batch request with any element limit and base fee, then cancellation or observed execution of
// the batch, then cancellation of whatever still waits in the pool. After every step the holder's
// balance plus the value in flight (pool + batches) equals the initial balance minus what was
// observed as executed; building or cancelling a batch moves nothing; every transfer that is not
// executed stays refundable in full.
func VerifC04InFlightConservation() {
	e := verifBridgeState()
	e.k.SetLastObservedBlockHeight(e.ctx, 1000, 90)
	module := models.ModuleAddress(verifModule)
	u1 := verifAmt("user1.balance", 100)
	e.bank.SetBalance(verifUser1, verifBase, u1)
	e.bank.SetBalance(module, e.bridgeDenom, u1) // escrow == base supply
	nSends := rt.Bound("sends", 2, 3)
	var amounts, fees []sdkmath.Int
	need := sdkmath.ZeroInt()
	for i := 0; i < nSends; i++ {
		amounts = append(amounts, verifAmt([]string{"amount1", "amount2", "amount3"}[i], 64))
		fees = append(fees, verifSmallFee([]string{"fee1", "fee2", "fee3"}[i]))
		rt.Assume(amounts[i].IsPositive())
		need = need.Add(amounts[i]).Add(fees[i])
	}
	rt.Assume(u1.GTE(need))
	e.store().Set(types.KeyLastTxPoolID, sdk.Uint64ToBigEndian(1))
	for i := 0; i < nSends; i++ {
		if _, err := e.k.AddToOutgoingPool(e.ctx, verifUser1, verifAddrB, sdk.NewCoin(verifBase, amounts[i]), sdk.NewCoin(verifBase, fees[i])); err != nil {
			rt.Assert(false, "a send of up to the holder's balance is never refused")
			return
		}
	}
	rt.Cover("state-built")
	hold := func() sdkmath.Int { return e.bank.Balance(verifUser1, verifBase) }
	rt.Assert(hold().Add(e.inFlight()).Equal(u1), "holdings + in flight == initial holdings after the sends")

	maxEl := uint(1 + rt.Choose("maxElements", nSends))
	baseFee := sdkmath.NewInt([]int64{0, 3}[rt.Choose("baseFee", 2)])
	held := hold()
	executed := sdkmath.ZeroInt()
	b, err := e.k.BuildOutgoingTxBatch(e.ctx, verifTokenA, verifAddrB, maxEl, sdkmath.ZeroInt(), baseFee)
	rt.Assert(rt.And(hold().Equal(held), held.Add(e.inFlight()).Equal(u1)), "a batch request (granted or refused) creates or destroys nothing")
	if err == nil {
		rt.Cover("batch-built")
		if rt.Bool("executed") {
			for _, tx := range b.Transactions {
				executed = executed.Add(tx.Token.Amount).Add(tx.Fee.Amount)
			}
			e.k.OutgoingTxBatchExecuted(e.ctx, verifTokenA, b.BatchNonce)
			rt.Cover("batch-executed")
		} else {
			if e.k.CancelOutgoingTxBatch(e.ctx, verifTokenA, b.BatchNonce) != nil {
				rt.Assert(false, "an existing batch can be cancelled")
			}
			rt.Cover("batch-cancelled")
		}
		rt.Assert(rt.And(hold().Equal(held), held.Add(e.inFlight()).Equal(u1.Sub(executed))), "holdings + in flight == initial - executed")
	}
	// whatever was not executed is still owed to its creator and can be taken back in full
	for id := uint64(1); id <= uint64(nSends); id++ {
		if _, gerr := e.k.GetUnbatchedTxById(e.ctx, id); gerr == nil {
			if _, rerr := e.k.RemoveFromOutgoingPoolAndRefund(e.ctx, id, verifUser1); rerr != nil {
				rt.Cover("cancel-refused")
				return // a refusal to cancel is not what this harness judges
			}
		}
	}
	rt.Assert(e.inFlight().IsZero(), "nothing is left in flight once everything is executed or cancelled")
	rt.Assert(hold().Equal(u1.Sub(executed)), "the holder ends with the initial holdings minus exactly what was executed")
	rt.Assert(e.bank.Balance(module, e.bridgeDenom).Equal(e.bank.Supply(verifBase)), "escrow of the bridge denomination == base supply")
}
