package keeper

import (
	"github.com/functionx/fx-core/v8/zzverif/rt"
)

// VerifC02TotalPower: whenever the total power is recomputed (bond, add-delegate, slash, new
// oracle set) it equals the combined power of exactly the online oracles, whatever the order of
// online and offline oracles in the store.
func VerifC02TotalPower() {
	e := verifNewEnv(100)
	e.setParams(verifParamSets[0], 20000)
	n := rt.Bound("powerOracles", 3, 4)
	e.verifSymOracles(n)
	rt.Cover("state-built")
	e.k.SetLastTotalPower(e.ctx)
	rt.Assert(e.k.GetLastTotalPower(e.ctx).Equal(e.onlinePower()), "the recorded total power is the combined power of the online oracles")
}
