package keeper

import (
	"math/big"

	sdkmath "cosmossdk.io/math"
	sdk "github.com/cosmos/cosmos-sdk/types"

	fxtypes "github.com/functionx/fx-core/v8/types"
	"github.com/functionx/fx-core/v8/x/crosschain/types"
	"github.com/functionx/fx-core/v8/zzverif/models"
	"github.com/functionx/fx-core/v8/zzverif/rt"
)

func (e *verifEnv) attachBankAndStaking() (*models.Bank, *models.StakingMsgs) {
	bank := models.NewBank(e.ms)
	st := &models.StakingMsgs{Bank: bank}
	e.k.bankKeeper = bank
	e.k.stakingMsgServer = st
	e.k.distributionKeeper = st
	e.k.ak = models.Accounts{}
	return bank, st
}

func verifIntBelow(name string, bits uint) sdkmath.Int {
	b := rt.BigInt(name)
	rt.Assume(rt.And(b.Sign() >= 0, b.Cmp(new(big.Int).Lsh(big.NewInt(1), bits)) < 0))
	return sdkmath.NewIntFromBigInt(b)
}

func (e *verifEnv) onlinePower() sdkmath.Int {
	sum := sdkmath.ZeroInt()
	for _, o := range e.k.GetAllOracles(e.ctx, true) {
		sum = sum.Add(o.GetPower())
	}
	return sum
}

// VerifC13AddDelegate: one MsgAddDelegate (top-up, and re-joining after a slash by repaying the
// penalty) from a state with two registered oracles. Checks: the recorded total power is never
// below the power of the online oracles afterwards (C02/R2); the recorded stake grows by exactly
// what is moved to the delegate address and delegated; the penalty charged never exceeds the stake
// and is burned; stake stays within [threshold, threshold*multiple]; an oracle outside the
// governance list cannot add stake.
func VerifC13AddDelegate() {
	e := verifNewEnv(100)
	bank, st := e.attachBankAndStaking()
	fractions := []sdkmath.LegacyDec{sdkmath.LegacyNewDecWithPrec(8, 1), sdkmath.LegacyZeroDec(), sdkmath.LegacyOneDec(), sdkmath.LegacyNewDecWithPrec(1, 18)}
	p := e.setParams(verifParamSets[0], 20000)
	p.SlashFraction = fractions[rt.Choose("slashFraction", rt.Bound("slashFractions", 2, len(fractions)))]
	e.store().Set(types.ParamsKey, e.k.cdc.MustMarshal(&p))
	threshold := p.DelegateThreshold.Amount
	maxStake := threshold.MulRaw(p.DelegateMultiple)

	// oracle 0: the one adding stake; oracle 1: a bystander (online, fixed stake)
	stake0 := verifIntBelow("oracle0.stake", 100)
	rt.Assume(rt.And(stake0.GTE(threshold), stake0.LTE(maxStake)))
	online0 := rt.Bool("oracle0.online")
	slashTimes := int64(rt.Choose("oracle0.slashTimes", 3))
	if online0 {
		rt.Assume(slashTimes == 0) // an online oracle has no unpaid penalty (SlashOracle sets it offline)
	}
	o0 := e.verifAddOracle(0, online0, 5, stake0, slashTimes)
	e.verifAddOracle(1, true, 5, verifStake(0), 0)
	inList := rt.Bool("oracle0.inGovernanceList")
	list := []string{verifOracleIdent(1).oracle.String()}
	if inList {
		list = append(list, verifOracleIdent(0).oracle.String())
	}
	e.k.SetProposalOracle(e.ctx, &types.ProposalOracle{Oracles: list})
	e.k.SetLastTotalPower(e.ctx)

	wallet := verifIntBelow("oracle0.wallet", 110)
	id := verifOracleIdent(0)
	bank.SetBalance(id.oracle, fxtypes.DefaultDenom, wallet)
	amount := verifIntBelow("addDelegate.amount", 105)
	supplyBefore := bank.Supply(fxtypes.DefaultDenom)
	delegateAddr := o0.GetDelegateAddress(verifModule)
	rt.Cover("state-built")

	_, err := MsgServer{Keeper: e.k}.AddDelegate(e.ctx, &types.MsgAddDelegate{ChainName: verifModule, OracleAddress: id.oracle.String(), Amount: types.NewDelegateAmount(amount)})
	if err != nil {
		rt.Cover("refused")
		return
	}
	rt.Cover("accepted")
	rt.Assert(inList, "only an oracle on the governance list can add stake")
	after, found := e.k.GetOracle(e.ctx, id.oracle)
	rt.Assert(found, "oracle record still there")
	// C02 / R2
	rt.Assert(e.k.GetLastTotalPower(e.ctx).GTE(e.onlinePower()), "recorded total power >= combined power of the online oracles")
	rt.Assert(after.Online, "accepted add-delegate leaves the oracle online")
	// stake accounting
	penalty := supplyBefore.Sub(bank.Supply(fxtypes.DefaultDenom)) // burned
	added := after.DelegateAmount.Sub(stake0)
	rt.Assert(rt.And(penalty.GTE(sdkmath.ZeroInt()), penalty.LTE(stake0)), "penalty is between 0 and the recorded stake")
	rt.Assert(added.Add(penalty).Equal(amount), "amount paid = stake added + penalty burned")
	rt.Assert(bank.Balance(id.oracle, fxtypes.DefaultDenom).Equal(wallet.Sub(amount)), "the oracle's wallet is charged exactly the amount")
	delegated := sdkmath.ZeroInt()
	for _, r := range st.Recs {
		if r.Kind == "delegate" {
			rt.Assert(r.Delegator == sdk.AccAddress(delegateAddr).String(), "delegation is made from the oracle's delegate address")
			delegated = delegated.Add(r.Amount)
		}
	}
	rt.Assert(delegated.Equal(added), "recorded stake growth == amount delegated on the oracle's behalf")
	rt.Assert(bank.Balance(delegateAddr, fxtypes.DefaultDenom).IsZero(), "nothing is left idle on the delegate address")
	rt.Assert(rt.And(after.DelegateAmount.GTE(threshold), after.DelegateAmount.LTE(maxStake)), "stake within the configured bounds")
	rt.Assert(after.SlashTimes == 0, "penalty counter cleared once paid")
}
