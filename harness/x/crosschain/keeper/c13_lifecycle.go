package keeper

import (
	"fmt"

	"math/big"

	sdkmath "cosmossdk.io/math"
	sdk "github.com/cosmos/cosmos-sdk/types"

	fxtypes "github.com/functionx/fx-core/v8/types"
	"github.com/functionx/fx-core/v8/x/crosschain/types"
	"github.com/functionx/fx-core/v8/zzverif/models"
	"github.com/functionx/fx-core/v8/zzverif/rt"
)

func (e *verifEnv) attachBankAndStaking() (*models.Bank, *models.StakingMsgs) {
	bank := models.NewBank(e.ms)
	st := &models.StakingMsgs{Bank: bank}
	e.k.bankKeeper = bank
	e.k.stakingMsgServer = st
	e.k.distributionKeeper = st
	e.k.ak = models.Accounts{}
	return bank, st
}

func verifIntBelow(name string, bits uint) sdkmath.Int {
	b := rt.BigInt(name)
	rt.Assume(rt.And(b.Sign() >= 0, b.Cmp(new(big.Int).Lsh(big.NewInt(1), bits)) < 0))
	return sdkmath.NewIntFromBigInt(b)
}

func (e *verifEnv) onlinePower() sdkmath.Int {
	sum := sdkmath.ZeroInt()
	for _, o := range e.k.GetAllOracles(e.ctx, true) {
		sum = sum.Add(o.GetPower())
	}
	return sum
}

// VerifC13AddDelegate: one MsgAddDelegate (top-up, and re-joining after a slash by repaying the
// penalty) from a state with two registered oracles. Checks: the recorded total power is never
// below the power of the online oracles afterwards (C02/R2); the recorded stake grows by exactly
// what is moved to the delegate address and delegated; the penalty charged never exceeds the stake
// and is burned; stake stays within [threshold, threshold*multiple]; an oracle outside the
// governance list cannot add stake.
func VerifC13AddDelegate() {
	e := verifNewEnv(100)
	bank, st := e.attachBankAndStaking()
	fractions := []sdkmath.LegacyDec{sdkmath.LegacyNewDecWithPrec(8, 1), sdkmath.LegacyZeroDec(), sdkmath.LegacyOneDec(), sdkmath.LegacyNewDecWithPrec(1, 18)}
	p := e.setParams(verifParamSets[0], 20000)
	p.SlashFraction = fractions[rt.Choose("slashFraction", rt.Bound("slashFractions", 2, len(fractions)))]
	e.store().Set(types.ParamsKey, e.k.cdc.MustMarshal(&p))
	threshold := p.DelegateThreshold.Amount
	maxStake := threshold.MulRaw(p.DelegateMultiple)

	// oracle 0: the one adding stake; oracle 1: a bystander (online, fixed stake)
	stake0 := verifIntBelow("oracle0.stake", 100)
	rt.Assume(rt.And(stake0.GTE(threshold), stake0.LTE(maxStake)))
	online0 := rt.Bool("oracle0.online")
	slashTimes := int64(rt.Choose("oracle0.slashTimes", 3))
	if online0 {
		rt.Assume(slashTimes == 0) // an online oracle has no unpaid penalty (SlashOracle sets it offline)
	}
	o0 := e.verifAddOracle(0, online0, 5, stake0, slashTimes)
	e.verifAddOracle(1, true, 5, verifStake(0), 0)
	inList := rt.Bool("oracle0.inGovernanceList")
	list := []string{verifOracleIdent(1).oracle.String()}
	if inList {
		list = append(list, verifOracleIdent(0).oracle.String())
	}
	e.k.SetProposalOracle(e.ctx, &types.ProposalOracle{Oracles: list})
	e.k.SetLastTotalPower(e.ctx)

	wallet := verifIntBelow("oracle0.wallet", 110)
	id := verifOracleIdent(0)
	bank.SetBalance(id.oracle, fxtypes.DefaultDenom, wallet)
	amount := verifIntBelow("addDelegate.amount", 105)
	supplyBefore := bank.Supply(fxtypes.DefaultDenom)
	delegateAddr := o0.GetDelegateAddress(verifModule)
	rt.Cover("state-built")

	_, err := MsgServer{Keeper: e.k}.AddDelegate(e.ctx, &types.MsgAddDelegate{ChainName: verifModule, OracleAddress: id.oracle.String(), Amount: types.NewDelegateAmount(amount)})
	if err != nil {
		rt.Cover("refused")
		return
	}
	rt.Cover("accepted")
	rt.Assert(inList, "only an oracle on the governance list can add stake")
	after, found := e.k.GetOracle(e.ctx, id.oracle)
	rt.Assert(found, "oracle record still there")
	// C02 / R2
	rt.Assert(e.k.GetLastTotalPower(e.ctx).GTE(e.onlinePower()), "recorded total power >= combined power of the online oracles")
	rt.Assert(after.Online, "accepted add-delegate leaves the oracle online")
	// stake accounting
	penalty := supplyBefore.Sub(bank.Supply(fxtypes.DefaultDenom)) // burned
	added := after.DelegateAmount.Sub(stake0)
	rt.Assert(rt.And(penalty.GTE(sdkmath.ZeroInt()), penalty.LTE(stake0)), "penalty is between 0 and the recorded stake")
	rt.Assert(added.Add(penalty).Equal(amount), "amount paid = stake added + penalty burned")
	rt.Assert(bank.Balance(id.oracle, fxtypes.DefaultDenom).Equal(wallet.Sub(amount)), "the oracle's wallet is charged exactly the amount")
	delegated := sdkmath.ZeroInt()
	for _, r := range st.Recs {
		if r.Kind == "delegate" {
			rt.Assert(r.Delegator == sdk.AccAddress(delegateAddr).String(), "delegation is made from the oracle's delegate address")
			delegated = delegated.Add(r.Amount)
		}
	}
	rt.Assert(delegated.Equal(added), "recorded stake growth == amount delegated on the oracle's behalf")
	rt.Assert(bank.Balance(delegateAddr, fxtypes.DefaultDenom).IsZero(), "nothing is left idle on the delegate address")
	rt.Assert(rt.And(after.DelegateAmount.GTE(threshold), after.DelegateAmount.LTE(maxStake)), "stake within the configured bounds")
	rt.Assert(after.SlashTimes == 0, "penalty counter cleared once paid")
}

// VerifC13Unbond: MsgUnbondedOracle for an oracle that governance removed from the list. It pays
// out only after the unbonding period has passed (no unbonding delegation in progress), pays the
// delegate address' balance minus the penalty, burns the penalty (never more than the stake),
// deletes the record, both lookup indexes and the oracle's event nonce, and cannot succeed twice;
// and once the stake has matured the oracle CAN withdraw.
func VerifC13Unbond() {
	e := verifNewEnv(100)
	bank, _ := e.attachBankAndStaking()
	view := &models.StakingView{}
	e.k.stakingKeeper = view
	p := e.setParams(verifParamSets[0], 20000)
	stake := verifIntBelow("oracle0.stake", 100)
	rt.Assume(stake.GTE(p.DelegateThreshold.Amount))
	online := rt.Bool("oracle0.online")
	slashTimes := int64(rt.Choose("oracle0.slashTimes", 3))
	o0 := e.verifAddOracle(0, online, 5, stake, slashTimes)
	e.verifAddOracle(1, true, 5, verifStake(0), 0)
	id := verifOracleIdent(0)
	inList := rt.Bool("oracle0.inGovernanceList")
	list := []string{verifOracleIdent(1).oracle.String()}
	if inList {
		list = append(list, id.oracle.String())
	}
	e.k.SetProposalOracle(e.ctx, &types.ProposalOracle{Oracles: list})
	e.k.SetLastEventNonceByOracle(e.ctx, id.oracle, 9)
	delegateAddr := o0.GetDelegateAddress(verifModule)
	unbondingInProgress := rt.Bool("unbondingInProgress")
	if unbondingInProgress {
		view.Unbonding = append(view.Unbonding, delegateAddr)
	}
	released := verifIntBelow("delegateAddress.balance", 101) // what the staking module has released so far
	bank.SetBalance(delegateAddr, fxtypes.DefaultDenom, released)
	wallet := verifIntBelow("oracle0.wallet", 100)
	bank.SetBalance(id.oracle, fxtypes.DefaultDenom, wallet)
	supplyBefore := bank.Supply(fxtypes.DefaultDenom)
	penalty := o0.GetSlashAmount(p.SlashFraction)
	rt.Cover("state-built")

	_, err := MsgServer{Keeper: e.k}.UnbondedOracle(e.ctx, &types.MsgUnbondedOracle{ChainName: verifModule, OracleAddress: id.oracle.String()})
	if err != nil {
		rt.Cover("refused")
		rt.Known("C13-unbond-requires-unbonding-in-progress", rt.And(!unbondingInProgress, !inList, !online, released.GTE(penalty)))
		rt.Assert(rt.Or(unbondingInProgress, inList, online, released.LT(penalty)), "once removed by governance, offline and fully unbonded, the oracle can withdraw its stake")
		return
	}
	rt.Cover("unbonded")
	rt.Assert(!inList && !online, "only an oracle removed by governance and offline can unbond")
	rt.Known("C13-unbond-requires-unbonding-in-progress", unbondingInProgress)
	rt.Assert(!unbondingInProgress, "the stake is paid out only after the unbonding period has passed")
	burned := supplyBefore.Sub(bank.Supply(fxtypes.DefaultDenom))
	rt.Assert(rt.And(burned.Equal(penalty), penalty.LTE(stake), penalty.GTE(sdkmath.ZeroInt())), "the penalty is burned, once, and never exceeds the stake")
	rt.Assert(bank.Balance(id.oracle, fxtypes.DefaultDenom).Equal(wallet.Add(released).Sub(penalty)), "the oracle receives the released stake minus the penalty")
	rt.Assert(bank.Balance(delegateAddr, fxtypes.DefaultDenom).IsZero(), "nothing stays behind on the delegate address")
	_, found := e.k.GetOracle(e.ctx, id.oracle)
	_, byBridger := e.k.GetOracleAddrByBridgerAddr(e.ctx, id.bridger)
	_, byExternal := e.k.GetOracleAddrByExternalAddr(e.ctx, id.external)
	rt.Assert(!found && !byBridger && !byExternal, "record and both lookup indexes are deleted")
	_, err = MsgServer{Keeper: e.k}.UnbondedOracle(e.ctx, &types.MsgUnbondedOracle{ChainName: verifModule, OracleAddress: id.oracle.String()})
	rt.Assert(err != nil, "the stake cannot be withdrawn twice")
}

// VerifC13BondEdit: MsgBondedOracle and MsgEditBridger keep the registry one-to-one: after the
// step every oracle, bridger and external address belongs to at most one record and the indexes
// agree with the records; bonding needs governance approval and a stake within bounds, records
// exactly the stake that is moved and delegated.
func VerifC13BondEdit() {
	e := verifNewEnv(100)
	bank, st := e.attachBankAndStaking()
	p := e.setParams(verifParamSets[0], 20000)
	e.verifAddOracle(1, true, 5, verifStake(0), 0)
	newID := verifOracleIdent(0)
	other := verifOracleIdent(1)
	inList := rt.Bool("approvedByGovernance")
	list := []string{other.oracle.String()}
	if inList {
		list = append(list, newID.oracle.String())
	}
	e.k.SetProposalOracle(e.ctx, &types.ProposalOracle{Oracles: list})
	e.k.SetLastTotalPower(e.ctx)
	wallet := verifIntBelow("wallet", 110)
	bank.SetBalance(newID.oracle, fxtypes.DefaultDenom, wallet)
	amount := verifIntBelow("stake", 105)
	// the new oracle may try to reuse the other oracle's bridger or external address
	bridger := newID.bridger
	if rt.Bool("reuseBridger") {
		bridger = other.bridger
	}
	external := newID.external
	if rt.Bool("reuseExternal") {
		external = other.external
	}
	rt.Cover("state-built")
	_, err := MsgServer{Keeper: e.k}.BondedOracle(e.ctx, &types.MsgBondedOracle{ChainName: verifModule, OracleAddress: newID.oracle.String(), BridgerAddress: bridger.String(),
		ExternalAddress: external, ValidatorAddress: sdk.ValAddress(make([]byte, 20)).String(), DelegateAmount: types.NewDelegateAmount(amount)})
	if err != nil {
		rt.Cover("bond-refused")
	} else {
		rt.Cover("bonded")
		rt.Assert(inList, "only an oracle approved by governance can bond")
		rt.Assert(string(bridger) == string(newID.bridger) && external == newID.external, "a bridger or external address already bound to an oracle cannot be bound again")
		rt.Assert(rt.And(amount.GTE(p.DelegateThreshold.Amount), amount.LTE(p.DelegateThreshold.Amount.MulRaw(p.DelegateMultiple))), "stake within the configured bounds")
		rec, found := e.k.GetOracle(e.ctx, newID.oracle)
		rt.Assert(found && rec.DelegateAmount.Equal(amount) && rec.Online, "recorded stake is the bonded amount")
		rt.Assert(bank.Balance(newID.oracle, fxtypes.DefaultDenom).Equal(wallet.Sub(amount)), "the oracle pays exactly the stake")
		delegated := sdkmath.ZeroInt()
		for _, r := range st.Recs {
			if r.Kind == "delegate" {
				delegated = delegated.Add(r.Amount)
			}
		}
		rt.Assert(delegated.Equal(amount), "exactly the stake is delegated on the oracle's behalf")
		rt.Assert(e.k.GetLastTotalPower(e.ctx).GTE(e.onlinePower()), "recorded total power >= power of the online oracles")
	}
	// registry consistency (R1) whatever happened
	for i := 0; i < 2; i++ {
		id := verifOracleIdent(i)
		rec, found := e.k.GetOracle(e.ctx, id.oracle)
		if !found {
			continue
		}
		a, ok := e.k.GetOracleAddrByBridgerAddr(e.ctx, rec.GetBridger())
		rt.Assert(ok && string(a) == string(id.oracle), "bridger index points back to the record")
		a, ok = e.k.GetOracleAddrByExternalAddr(e.ctx, rec.ExternalAddress)
		rt.Assert(ok && string(a) == string(id.oracle), "external-address index points back to the record")
	}
	// edit bridger of oracle 1 to a fresh or to an occupied bridger
	target := verifOracleIdent(2).bridger
	occupied := rt.Bool("editToOccupiedBridger")
	if occupied {
		if _, ok := e.k.GetOracleAddrByBridgerAddr(e.ctx, newID.bridger); !ok {
			occupied = false
		} else {
			target = newID.bridger
		}
	}
	_, err = MsgServer{Keeper: e.k}.EditBridger(e.ctx, &types.MsgEditBridger{ChainName: verifModule, OracleAddress: other.oracle.String(), BridgerAddress: target.String()})
	if err == nil {
		rt.Cover("bridger-edited")
		rt.Assert(!occupied, "a bridger address bound to another oracle cannot be taken over")
		a, ok := e.k.GetOracleAddrByBridgerAddr(e.ctx, target)
		rt.Assert(ok && string(a) == string(other.oracle), "new bridger maps to the oracle")
		_, old := e.k.GetOracleAddrByBridgerAddr(e.ctx, other.bridger)
		rt.Assert(!old, "old bridger no longer maps to anything")
	}
}

// VerifC13SlashOnlyIf: the end-block slashing pass over one oracle set, batch or bridge call (or
// a batch and a bridge call together) of arbitrary age, with two oracles of arbitrary start
// height, each of which has not confirmed, has confirmed, or has confirmed and rotated its bridger
// key afterwards. An oracle goes offline / is penalised only if it was online, joined no later
// than the object was created, the object is at least the signed window old and the oracle left
// it unconfirmed; an oracle that confirmed is never penalised; the penalty counter moves by one
// at most even when two objects are overdue.
func VerifC13SlashOnlyIf() {
	ctxH := rt.I64("ctxHeight")
	rt.Assume(rt.And(ctxH >= 1, ctxH < 1<<40))
	e := verifNewEnv(1)
	e.ctx = e.ctx.WithBlockHeight(ctxH)
	window := rt.U64("signedWindow")
	rt.Assume(rt.And(window >= 1, window < 1<<40))
	e.setParams(verifParamSets[0], window)
	oracles := e.verifSymOracles(rt.Bound("slashingOracles", 2, 3))
	e.k.SetLastTotalPower(e.ctx)
	h := rt.U64("object.height")
	rt.Assume(rt.And(h >= 1, h <= uint64(ctxH)))
	kind := rt.Choose("kind", 4) // oracle set, batch, bridge call, batch + bridge call
	confirmed := make([]int, len(oracles))
	for i := range oracles {
		confirmed[i] = rt.Choose(fmt.Sprintf("oracle%d.confirmed", i), 3) // no, yes, yes and bridger rotated since
	}
	bridgerAt := func(i int) string {
		if confirmed[i] == 2 {
			return verifOracleIdent(7 + i).bridger.String() // the key the oracle used when it confirmed
		}
		return verifOracleIdent(i).bridger.String()
	}
	if kind == 0 {
		e.k.StoreOracleSet(e.ctx, types.NewOracleSet(1, h, types.BridgeValidators{{Power: 4294967295, ExternalAddress: verifOracleIdent(0).external}}))
		e.k.SetLatestOracleSetNonce(e.ctx, 1)
		for i := range oracles {
			if confirmed[i] != 0 {
				id := verifOracleIdent(i)
				e.k.SetOracleSetConfirm(e.ctx, id.oracle, &types.MsgOracleSetConfirm{Nonce: 1, BridgerAddress: bridgerAt(i), ExternalAddress: id.external, Signature: "00", ChainName: verifModule})
			}
		}
	}
	if kind == 1 || kind == 3 {
		b := &types.OutgoingTxBatch{BatchNonce: 1, BatchTimeout: 1 << 50, TokenContract: verifTokenA, Block: h, FeeReceive: verifAddrB,
			Transactions: []*types.OutgoingTransferTx{verifTransfer(1, verifTokenA, 10, 2)}}
		if e.k.StoreBatch(e.ctx, b) != nil {
			rt.Assert(false, "harness: cannot store batch")
		}
		for i := range oracles {
			if confirmed[i] != 0 {
				id := verifOracleIdent(i)
				e.k.SetBatchConfirm(e.ctx, id.oracle, &types.MsgConfirmBatch{Nonce: 1, TokenContract: verifTokenA, BridgerAddress: bridgerAt(i), ExternalAddress: id.external, Signature: "00", ChainName: verifModule})
			}
		}
	}
	if kind == 2 || kind == 3 {
		e.k.SetOutgoingBridgeCall(e.ctx, &types.OutgoingBridgeCall{Nonce: 1, Timeout: 1 << 50, BlockHeight: h, Sender: verifAddrB, Refund: verifAddrB, To: verifTokenA})
		for i := range oracles {
			if confirmed[i] != 0 {
				id := verifOracleIdent(i)
				e.k.SetBridgeCallConfirm(e.ctx, id.oracle, &types.MsgBridgeCallConfirm{Nonce: 1, BridgerAddress: bridgerAt(i), ExternalAddress: id.external, Signature: "00", ChainName: verifModule})
			}
		}
	}
	rt.Cover("state-built")
	e.k.EndBlocker(e.ctx)
	rt.Assert(e.k.GetLastTotalPower(e.ctx).GTE(e.onlinePower()), "after the slashing pass the recorded total power is at least the power of the online oracles (C02 / R2)")
	for i, before := range oracles {
		after, found := e.k.GetOracle(e.ctx, verifOracleIdent(i).oracle)
		if !found {
			rt.Assert(false, "oracle record survives the end-blocker")
			continue
		}
		rt.Assert(rt.Or(after.Online == before.Online, rt.And(before.Online, !after.Online)), "the end-blocker never brings an oracle online")
		rt.Assert(rt.Or(after.SlashTimes == before.SlashTimes, after.SlashTimes == before.SlashTimes+1), "the penalty counter moves by one at most")
		rt.Assert((after.SlashTimes == before.SlashTimes+1) == rt.And(before.Online, !after.Online), "penalty counter and offline flag move together")
		if after.Online != before.Online {
			rt.Cover("penalised")
			rt.Assert(confirmed[i] == 0, "an oracle that confirmed in time is never penalised")
			rt.Assert(uint64(before.StartHeight) <= h, "penalised only for an object created after it joined")
			rt.Assert(uint64(ctxH)-h >= window, "penalised only for an object left unconfirmed for at least the signed window")
		} else if confirmed[i] != 0 {
			rt.Cover("confirmed-not-penalised")
		}
		rt.Assert(after.DelegateAmount.Equal(before.DelegateAmount), "the recorded stake is not touched by the slashing pass")
	}
}
