package keeper

import (
	sdkmath "cosmossdk.io/math"
	sdk "github.com/cosmos/cosmos-sdk/types"

	"github.com/functionx/fx-core/v8/x/crosschain/types"
	"github.com/functionx/fx-core/v8/zzverif/rt"
)

// VerifC06TimeoutHeight: the timeout height handed to new batches / bridge calls is 0 when no
// external height has ever been observed, and otherwise lies at least timeout/avgExternalBlock
// blocks above the last observed external height (no wrap-around within the bounds).
func VerifC06TimeoutHeight() {
	ctxH := rt.I64("ctxHeight")
	rt.Assume(rt.And(ctxH >= 1, ctxH < 1<<40))
	e := verifNewEnv(1)
	e.ctx = e.ctx.WithBlockHeight(ctxH)
	ps := verifParamSets[rt.Choose("params", len(verifParamSets))]
	e.setParams(ps, 20000)
	ext := rt.U64("observedExternalHeight")
	fxH := rt.U64("observedAtFxHeight")
	rt.Assume(rt.And(ext < 1<<40, fxH <= uint64(ctxH)))
	observed := rt.Bool("somethingObserved")
	if observed {
		e.k.SetLastObservedBlockHeight(e.ctx, ext, fxH)
	}
	batchT := e.k.CalExternalTimeoutHeight(e.ctx, GetExternalBatchTimeout)
	callT := e.k.CalExternalTimeoutHeight(e.ctx, GetBridgeCallTimeout)
	if !observed || ext == 0 {
		rt.Cover("nothing-observed")
		rt.Assert(batchT == 0, "no observed external height => batch timeout height 0")
		rt.Assert(callT == 0, "no observed external height => bridge call timeout height 0")
		return
	}
	rt.Cover("observed")
	rt.Assert(batchT >= ext+ps.batchTimeout/ps.avgExtBlock, "batch timeout height >= observed height + timeout period")
	rt.Assert(callT >= ext+ps.bridgeCallTimeout/ps.avgExtBlock, "bridge call timeout height >= observed height + timeout period")
	rt.Assert(batchT > 0 && callT > 0, "timeout height positive once something was observed")
}

const (
	verifTokenA = "0x0000000000000000000000000000000000000001"
	verifAddrB  = "0x0000000000000000000000000000000000000002"
)

func verifTransfer(id uint64, token string, amount, fee int64) *types.OutgoingTransferTx {
	return &types.OutgoingTransferTx{
		Id: id, Sender: sdk.AccAddress(make([]byte, 20)).String(), DestAddress: verifAddrB,
		Token: types.NewERC20Token(sdkmath.NewInt(amount), token),
		Fee:   types.NewERC20Token(sdkmath.NewInt(fee), token),
	}
}

// VerifC06Cleanup: after the timeout sweep that follows an observed event, a batch or outgoing
// bridge call has been removed only if the observed external height has reached its timeout
// height (the bridge contract accepts a submission iff block.number < timeout), whatever the
// fxcore height or clock; and a removed batch put its transfers back into the pool.
func VerifC06Cleanup() {
	ctxH := rt.I64("ctxHeight")
	rt.Assume(rt.And(ctxH >= 1, ctxH < 1<<40))
	e := verifNewEnv(1)
	e.ctx = e.ctx.WithBlockHeight(ctxH)
	e.setParams(verifParamSets[0], 20000)
	h := rt.U64("observedExternalHeight")
	e.k.SetLastObservedBlockHeight(e.ctx, h, rt.U64("observedAtFxHeight"))

	t1, t2 := rt.U64("batch1.timeout"), rt.U64("batch2.timeout")
	b1 := &types.OutgoingTxBatch{BatchNonce: 1, BatchTimeout: t1, TokenContract: verifTokenA, Block: 5, FeeReceive: verifAddrB,
		Transactions: []*types.OutgoingTransferTx{verifTransfer(1, verifTokenA, 10, 2)}}
	b2 := &types.OutgoingTxBatch{BatchNonce: 2, BatchTimeout: t2, TokenContract: verifTokenA, Block: 6, FeeReceive: verifAddrB,
		Transactions: []*types.OutgoingTransferTx{verifTransfer(2, verifTokenA, 20, 3)}}
	if e.k.StoreBatch(e.ctx, b1) != nil || e.k.StoreBatch(e.ctx, b2) != nil {
		rt.Assert(false, "harness: cannot store batches")
	}
	c1, c2 := rt.U64("call1.timeout"), rt.U64("call2.timeout")
	e.k.SetOutgoingBridgeCall(e.ctx, &types.OutgoingBridgeCall{Nonce: 1, Timeout: c1, BlockHeight: 5, Sender: verifAddrB, Refund: verifAddrB, To: verifTokenA})
	e.k.SetOutgoingBridgeCall(e.ctx, &types.OutgoingBridgeCall{Nonce: 2, Timeout: c2, BlockHeight: 6, Sender: verifAddrB, Refund: verifAddrB, To: verifTokenA})
	e.k.SetBridgeCallFromMsg(e.ctx, 1)
	e.k.SetBridgeCallFromMsg(e.ctx, 2)
	rt.Cover("state-built")

	e.k.cleanupTimedOutBatches(e.ctx)
	e.k.cleanupTimeOutBridgeCall(e.ctx)

	for i, tmo := range []uint64{t1, t2} {
		nonce := uint64(i + 1)
		if e.k.GetOutgoingTxBatch(e.ctx, verifTokenA, nonce) == nil {
			rt.Cover("batch-cancelled")
			rt.Assert(tmo <= h, "batch cancelled for timeout only if observed external height >= its timeout height")
			_, err := e.k.GetUnbatchedTxById(e.ctx, nonce)
			rt.Assert(err == nil, "cancelled batch returned its transfer to the pool")
		} else {
			rt.Cover("batch-kept")
			_, err := e.k.GetUnbatchedTxById(e.ctx, nonce)
			rt.Assert(err != nil, "kept batch still owns its transfer")
		}
	}
	for i, tmo := range []uint64{c1, c2} {
		nonce := uint64(i + 1)
		if !e.k.HasOutgoingBridgeCall(e.ctx, nonce) {
			rt.Cover("call-refunded")
			rt.Assert(tmo <= h, "bridge call refunded for timeout only if observed external height >= its timeout height")
		} else {
			rt.Cover("call-kept")
		}
	}
}
