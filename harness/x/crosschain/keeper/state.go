package keeper

import (
	"fmt"

	sdkmath "cosmossdk.io/math"
	sdk "github.com/cosmos/cosmos-sdk/types"

	"github.com/functionx/fx-core/v8/x/crosschain/types"
	"github.com/functionx/fx-core/v8/zzverif/rt"
)

// verifOracleID describes the i-th (concrete, pairwise distinct) oracle identity.
type verifOracleID struct {
	oracle, bridger sdk.AccAddress
	external        string
}

func verifOracleIdent(i int) verifOracleID {
	o := make([]byte, 20)
	b := make([]byte, 20)
	o[0], b[0], b[1] = byte(i+1), byte(i+1), 0xbb
	return verifOracleID{oracle: o, bridger: b, external: fmt.Sprintf("0x00000000000000000000000000000000000000%02d", i+1)}
}

var verifStakes = []int64{10000, 30000, 100000} // in units of 10^18 (the power reduction)

func verifStake(k int) sdkmath.Int {
	return sdkmath.NewInt(verifStakes[k]).Mul(sdkmath.NewIntFromUint64(1_000_000_000_000_000_000))
}

// verifAddOracle registers oracle i through the real setters (record + both indexes).
func (e *verifEnv) verifAddOracle(i int, online bool, startHeight int64, stake sdkmath.Int, slashTimes int64) types.Oracle {
	id := verifOracleIdent(i)
	o := types.Oracle{
		OracleAddress: id.oracle.String(), BridgerAddress: id.bridger.String(), ExternalAddress: id.external,
		DelegateAmount: stake, StartHeight: startHeight, Online: online,
		DelegateValidator: sdk.ValAddress(make([]byte, 20)).String(), SlashTimes: slashTimes,
	}
	e.k.SetOracle(e.ctx, o)
	e.k.SetOracleAddrByBridgerAddr(e.ctx, id.bridger, id.oracle)
	e.k.SetOracleAddrByExternalAddr(e.ctx, id.external, id.oracle)
	return o
}

// verifSymOracles adds n oracles with symbolic online flag and start height and enumerated stake.
func (e *verifEnv) verifSymOracles(n int) []types.Oracle {
	var out []types.Oracle
	for i := 0; i < n; i++ {
		p := fmt.Sprintf("oracle%d.", i)
		start := rt.I64(p + "startHeight")
		rt.Assume(rt.And(start >= 0, start < 1<<40))
		stake := verifStake(rt.Choose(p+"stake", rt.Bound("stakeChoices", 1, len(verifStakes))))
		out = append(out, e.verifAddOracle(i, rt.Bool(p+"online"), start, stake, 0))
	}
	return out
}
