package keeper

import (
	sdkmath "cosmossdk.io/math"

	"github.com/functionx/fx-core/v8/x/crosschain/types"
	"github.com/functionx/fx-core/v8/zzverif/rt"
)

const verifTokenB = "0x0000000000000000000000000000000000000003"

// VerifC17BatchFees: GetAllBatchFees builds its answer from a Go map; its result (which feeds
// relayers and batch decisions) must not depend on the map iteration order. The computation is
// run under both map orders (natively: repeated under Go's randomised order) on the same state
// with symbolic fees and must give identical lists.
func VerifC17BatchFees() {
	e := verifBridgeState()
	tokens := []string{verifTokenA, verifTokenB, verifAddrB}
	nTok := 2 + rt.Choose("tokens", 2)
	for i := 0; i < 4; i++ {
		tk := tokens[i%nTok]
		tx := &types.OutgoingTransferTx{Id: uint64(i + 1), Sender: verifUser1.String(), DestAddress: verifAddrB,
			Token: types.NewERC20Token(sdkmath.NewInt(int64(100+i)), tk), Fee: types.NewERC20Token(verifSmallFee("fee"), tk)}
		if err := e.k.AddUnbatchedTx(e.ctx, tx); err != nil {
			rt.Assert(false, "harness: cannot fill pool")
		}
	}
	maxEl := uint(1 + rt.Choose("maxElements", 2))
	var first []*types.BatchFees
	for run := 0; run < rt.Repeats(); run++ {
		rt.SetMapOrder(run%2 == 1)
		got := e.k.GetAllBatchFees(e.ctx, maxEl, nil)
		if run == 0 {
			first = got
			rt.Cover("computed")
			continue
		}
		rt.Assert(len(got) == len(first), "same number of fee entries under every map order")
		if len(got) == len(first) {
			for i := range got {
				rt.Assert(rt.And(got[i].TokenContract == first[i].TokenContract, got[i].TotalFees.Equal(first[i].TotalFees),
					got[i].TotalAmount.Equal(first[i].TotalAmount), got[i].TotalTxs == first[i].TotalTxs), "identical fee entries, in identical order, under every map order")
			}
		}
	}
	rt.SetMapOrder(false)
}

// VerifC17SupportChains: the list of supported chains is derived from a map of registered chains
// and must come out in one fixed order.
func VerifC17SupportChains() {
	verifSetup()
	var first []string
	for run := 0; run < rt.Repeats(); run++ {
		rt.SetMapOrder(run%2 == 1)
		got := types.GetSupportChains()
		if run == 0 {
			first = got
			rt.Cover("computed")
			continue
		}
		rt.Assert(len(got) == len(first), "same chains under every map order")
		if len(got) == len(first) {
			for i := range got {
				rt.Assert(got[i] == first[i], "chains listed in identical order under every map order")
			}
		}
	}
	rt.SetMapOrder(false)
}
