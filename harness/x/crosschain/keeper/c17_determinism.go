package keeper

import (
	"fmt"
	sdk "github.com/cosmos/cosmos-sdk/types"
	banktypes "github.com/cosmos/cosmos-sdk/x/bank/types"
	"github.com/ethereum/go-ethereum/common"
	erc20types "github.com/functionx/fx-core/v8/x/erc20/types"

	sdkmath "cosmossdk.io/math"

	"github.com/functionx/fx-core/v8/x/crosschain/types"
	"github.com/functionx/fx-core/v8/zzverif/models"
	"github.com/functionx/fx-core/v8/zzverif/rt"
)

const verifTokenB = "0x0000000000000000000000000000000000000003"

// VerifC17BatchFees: GetAllBatchFees builds its answer from a Go map; its result (which feeds
// relayers and batch decisions) must not depend on the map iteration order. The computation is
// run under both map orders (natively: repeated under Go's randomised order) on the same state
// with symbolic fees and must give identical lists.
func VerifC17BatchFees() {
	e := verifBridgeState()
	tokens := []string{verifTokenA, verifTokenB, verifAddrB}
	nTok := 2 + rt.Choose("tokens", 2)
	for i := 0; i < 4; i++ {
		tk := tokens[i%nTok]
		tx := &types.OutgoingTransferTx{Id: uint64(i + 1), Sender: verifUser1.String(), DestAddress: verifAddrB,
			Token: types.NewERC20Token(sdkmath.NewInt(int64(100+i)), tk), Fee: types.NewERC20Token(verifSmallFee("fee"), tk)}
		if err := e.k.AddUnbatchedTx(e.ctx, tx); err != nil {
			rt.Assert(false, "harness: cannot fill pool")
		}
	}
	maxEl := uint(1 + rt.Choose("maxElements", 2))
	var first []*types.BatchFees
	for run := 0; run < rt.Repeats(); run++ {
		rt.SetMapOrder(run%2 == 1)
		got := e.k.GetAllBatchFees(e.ctx, maxEl, nil)
		if run == 0 {
			first = got
			rt.Cover("computed")
			continue
		}
		rt.Assert(len(got) == len(first), "same number of fee entries under every map order")
		if len(got) == len(first) {
			for i := range got {
				rt.Assert(rt.And(got[i].TokenContract == first[i].TokenContract, got[i].TotalFees.Equal(first[i].TotalFees),
					got[i].TotalAmount.Equal(first[i].TotalAmount), got[i].TotalTxs == first[i].TotalTxs), "identical fee entries, in identical order, under every map order")
			}
		}
	}
	rt.SetMapOrder(false)
}

// VerifC17SupportChains: the list of supported chains is derived from a map of registered chains
// and must come out in one fixed order.
func VerifC17SupportChains() {
	verifSetup()
	var first []string
	for run := 0; run < rt.Repeats(); run++ {
		rt.SetMapOrder(run%2 == 1)
		got := types.GetSupportChains()
		if run == 0 {
			first = got
			rt.Cover("computed")
			continue
		}
		rt.Assert(len(got) == len(first), "same chains under every map order")
		if len(got) == len(first) {
			for i := range got {
				rt.Assert(got[i] == first[i], "chains listed in identical order under every map order")
			}
		}
	}
	rt.SetMapOrder(false)
}

// VerifC17ProposalOracles: a governance update of the oracle list that drops several bonded
// oracles undelegates their stakes one after the other; the order of those staking messages (it
// fixes unbonding ids and the event sequence, hence the application hash) must not depend on map
// iteration order. The update is run on two branches of the same state under both map orders.
func VerifC17ProposalOracles() {
	e := verifNewEnv(100)
	_, st := e.attachBankAndStaking()
	view := &models.StakingView{}
	e.k.stakingKeeper = view
	e.setParams(verifParamSets[0], 20000)
	n := rt.Bound("oracles", 4, 6)
	var old, all []string
	for i := 0; i < n; i++ {
		// oracle 0 is online and stays; the others are online or not, in the old list or not
		online := true
		if i > 0 {
			online = rt.Bool(fmt.Sprintf("oracle%d.online", i))
		}
		o := e.verifAddOracle(i, online, 5, verifStake(0), 0)
		all = append(all, o.OracleAddress)
		if i == 0 || rt.Bool(fmt.Sprintf("oracle%d.inOldList", i)) {
			old = append(old, o.OracleAddress)
		}
		view.Delegated = append(view.Delegated, models.DelegationRec{Delegator: o.GetDelegateAddress(verifModule).String(), Amount: sdkmath.NewInt(1000)})
	}
	e.k.SetProposalOracle(e.ctx, &types.ProposalOracle{Oracles: old})
	keep := 1 + rt.Choose("kept", 2)
	var first []models.DelegationRec
	var firstErr error
	for run := 0; run < rt.Repeats(); run++ {
		rt.SetMapOrder(run%2 == 1)
		st.Recs = nil
		cctx, _ := e.ctx.CacheContext()
		err := e.k.UpdateProposalOracles(cctx, all[:keep])
		if run == 0 {
			first, firstErr = st.Recs, err
			rt.Cover("computed")
			if err == nil && len(first) >= 2 {
				rt.Cover("several-dropped")
			}
			continue
		}
		rt.Assert((err == nil) == (firstErr == nil), "same verdict under every map order")
		rt.Assert(len(st.Recs) == len(first), "same number of staking messages under every map order")
		if len(st.Recs) == len(first) {
			for i := range first {
				rt.Assert(st.Recs[i].Delegator == first[i].Delegator, "staking messages issued in identical order under every map order")
			}
		}
	}
	rt.SetMapOrder(false)
}

// VerifC17OutgoingBridgeCallTokens: an outgoing bridge call carrying two different bridged tokens
// is built on two branches of the same state under both map iteration orders; the stored record
// (token list order included: it is hashed into the application state and into the checkpoint the
// oracles sign) must be the same.
func VerifC17OutgoingBridgeCallTokens() {
	e := verifBridgeState()
	e.k.SetLastObservedBlockHeight(e.ctx, 1000, 90)
	base2, bridgeDenom2, _ := e.verifSecondToken()
	module := models.ModuleAddress(verifModule)
	a1, a2 := verifAmt("amount.usdt", 64), verifAmt("amount.fxusd", 64)
	rt.Assume(rt.And(a1.IsPositive(), a2.IsPositive()))
	e.bank.SetBalance(verifUser1, verifBase, a1)
	e.bank.SetBalance(verifUser1, base2, a2)
	e.bank.SetBalance(module, e.bridgeDenom, a1)
	e.bank.SetBalance(module, bridgeDenom2, a2)
	sender := common.BytesToAddress(verifUser1)
	var first *types.OutgoingBridgeCall
	for run := 0; run < rt.Repeats(); run++ {
		rt.SetMapOrder(run%2 == 1)
		cctx, _ := e.ctx.CacheContext()
		nonce, err := e.k.AddOutgoingBridgeCall(cctx, sender, sender, sdk.NewCoins(sdk.NewCoin(base2, a2), sdk.NewCoin(verifBase, a1)), common.HexToAddress(verifTargetContract), nil, nil, 0)
		if err != nil {
			rt.Cover("call-refused")
			rt.SetMapOrder(false)
			return
		}
		call, found := e.k.GetOutgoingBridgeCallByNonce(cctx, nonce)
		if !found {
			rt.Assert(false, "the call is on record")
			return
		}
		if run == 0 {
			first = call
			rt.Cover("computed")
			continue
		}
		rt.Assert(len(call.Tokens) == len(first.Tokens), "same number of tokens under every map order")
		if len(call.Tokens) == len(first.Tokens) {
			for i := range call.Tokens {
				rt.Assert(rt.And(call.Tokens[i].Contract == first.Tokens[i].Contract, call.Tokens[i].Amount.Equal(first.Tokens[i].Amount)), "the token list of the stored call is in the same order under every map order")
			}
		}
	}
	rt.SetMapOrder(false)
}

// verifSecondToken registers a second bridged token (0x..03 <-> "fxusd") exactly like the first.
func (e *verifBridgeEnv) verifSecondToken() (base2, bridgeDenom2 string, erc2 common.Address) {
	base2, erc2 = "fxusd", common.HexToAddress("0x00000000000000000000000000000000000000c2")
	if err := e.k.AddBridgeTokenExecuted(e.ctx, &types.MsgBridgeTokenClaim{TokenContract: verifTokenB, Name: "FX USD", Symbol: "FXUSD", Decimals: 6, ChainName: verifModule}); err != nil {
		panic(err)
	}
	bridgeDenom2 = types.NewBridgeDenom(verifModule, verifTokenB)
	e.bank.SetDenomMetaData(e.ctx, banktypes.Metadata{Base: base2, Display: base2, Name: "FX USD", Symbol: "FXUSD",
		DenomUnits: []*banktypes.DenomUnit{{Denom: base2, Exponent: 0, Aliases: []string{bridgeDenom2}}}})
	e.ek.SetAliasesDenom(e.ctx, base2, bridgeDenom2)
	e.ek.AddTokenPair(e.ctx, erc20types.TokenPair{Erc20Address: erc2.Hex(), Denom: base2, Enabled: true, ContractOwner: erc20types.OWNER_MODULE})
	e.evm.Contracts = append(e.evm.Contracts, erc2)
	return base2, bridgeDenom2, erc2
}
