package keeper

import (
	"fmt"

	sdkmath "cosmossdk.io/math"

	"github.com/functionx/fx-core/v8/x/crosschain/types"
	"github.com/functionx/fx-core/v8/zzverif/models"
	"github.com/functionx/fx-core/v8/zzverif/rt"
)

const verifTokenB = "0x0000000000000000000000000000000000000003"

// VerifC17BatchFees: GetAllBatchFees builds its answer from a Go map; its result (which feeds
// relayers and batch decisions) must not depend on the map iteration order. The computation is
// run under both map orders (natively: repeated under Go's randomised order) on the same state
// with symbolic fees and must give identical lists.
func VerifC17BatchFees() {
	e := verifBridgeState()
	tokens := []string{verifTokenA, verifTokenB, verifAddrB}
	nTok := 2 + rt.Choose("tokens", 2)
	for i := 0; i < 4; i++ {
		tk := tokens[i%nTok]
		tx := &types.OutgoingTransferTx{Id: uint64(i + 1), Sender: verifUser1.String(), DestAddress: verifAddrB,
			Token: types.NewERC20Token(sdkmath.NewInt(int64(100+i)), tk), Fee: types.NewERC20Token(verifSmallFee("fee"), tk)}
		if err := e.k.AddUnbatchedTx(e.ctx, tx); err != nil {
			rt.Assert(false, "harness: cannot fill pool")
		}
	}
	maxEl := uint(1 + rt.Choose("maxElements", 2))
	var first []*types.BatchFees
	for run := 0; run < rt.Repeats(); run++ {
		rt.SetMapOrder(run%2 == 1)
		got := e.k.GetAllBatchFees(e.ctx, maxEl, nil)
		if run == 0 {
			first = got
			rt.Cover("computed")
			continue
		}
		rt.Assert(len(got) == len(first), "same number of fee entries under every map order")
		if len(got) == len(first) {
			for i := range got {
				rt.Assert(rt.And(got[i].TokenContract == first[i].TokenContract, got[i].TotalFees.Equal(first[i].TotalFees),
					got[i].TotalAmount.Equal(first[i].TotalAmount), got[i].TotalTxs == first[i].TotalTxs), "identical fee entries, in identical order, under every map order")
			}
		}
	}
	rt.SetMapOrder(false)
}

// VerifC17SupportChains: the list of supported chains is derived from a map of registered chains
// and must come out in one fixed order.
func VerifC17SupportChains() {
	verifSetup()
	var first []string
	for run := 0; run < rt.Repeats(); run++ {
		rt.SetMapOrder(run%2 == 1)
		got := types.GetSupportChains()
		if run == 0 {
			first = got
			rt.Cover("computed")
			continue
		}
		rt.Assert(len(got) == len(first), "same chains under every map order")
		if len(got) == len(first) {
			for i := range got {
				rt.Assert(got[i] == first[i], "chains listed in identical order under every map order")
			}
		}
	}
	rt.SetMapOrder(false)
}

// VerifC17ProposalOracles: a governance update of the oracle list that drops several bonded
// oracles undelegates their stakes one after the other; the order of those staking messages (it
// fixes unbonding ids and the event sequence, hence the application hash) must not depend on map
// iteration order. The update is run on two branches of the same state under both map orders.
func VerifC17ProposalOracles() {
	e := verifNewEnv(100)
	_, st := e.attachBankAndStaking()
	view := &models.StakingView{}
	e.k.stakingKeeper = view
	e.setParams(verifParamSets[0], 20000)
	n := rt.Bound("oracles", 4, 6)
	var old, all []string
	for i := 0; i < n; i++ {
		// oracle 0 is online and stays; the others are online or not, in the old list or not
		online := true
		if i > 0 {
			online = rt.Bool(fmt.Sprintf("oracle%d.online", i))
		}
		o := e.verifAddOracle(i, online, 5, verifStake(0), 0)
		all = append(all, o.OracleAddress)
		if i == 0 || rt.Bool(fmt.Sprintf("oracle%d.inOldList", i)) {
			old = append(old, o.OracleAddress)
		}
		view.Delegated = append(view.Delegated, models.DelegationRec{Delegator: o.GetDelegateAddress(verifModule).String(), Amount: sdkmath.NewInt(1000)})
	}
	e.k.SetProposalOracle(e.ctx, &types.ProposalOracle{Oracles: old})
	keep := 1 + rt.Choose("kept", 2)
	var first []models.DelegationRec
	var firstErr error
	for run := 0; run < rt.Repeats(); run++ {
		rt.SetMapOrder(run%2 == 1)
		st.Recs = nil
		cctx, _ := e.ctx.CacheContext()
		err := e.k.UpdateProposalOracles(cctx, all[:keep])
		if run == 0 {
			first, firstErr = st.Recs, err
			rt.Cover("computed")
			if err == nil && len(first) >= 2 {
				rt.Cover("several-dropped")
			}
			continue
		}
		rt.Assert((err == nil) == (firstErr == nil), "same verdict under every map order")
		rt.Assert(len(st.Recs) == len(first), "same number of staking messages under every map order")
		if len(st.Recs) == len(first) {
			for i := range first {
				rt.Assert(st.Recs[i].Delegator == first[i].Delegator, "staking messages issued in identical order under every map order")
			}
		}
	}
	rt.SetMapOrder(false)
}
