package keeper

import (
	sdkmath "cosmossdk.io/math"
	"github.com/cosmos/cosmos-sdk/codec"
	codectypes "github.com/cosmos/cosmos-sdk/codec/types"
	sdk "github.com/cosmos/cosmos-sdk/types"

	fxtypes "github.com/functionx/fx-core/v8/types"
	"github.com/functionx/fx-core/v8/x/crosschain/types"
	"github.com/functionx/fx-core/v8/zzverif/models"
)

const verifModule = "eth"

type verifEnv struct {
	ms  *models.MultiStore
	ctx sdk.Context
	k   Keeper
}

func verifRealCodec() codec.BinaryCodec {
	reg := codectypes.NewInterfaceRegistry()
	types.RegisterInterfaces(reg)
	return codec.NewProtoCodec(reg)
}

func verifSetup() {
	if sdk.GetConfig().GetBech32AccountAddrPrefix() != fxtypes.AddressPrefix {
		fxtypes.SetConfig(false)
	}
	if !verifChainRegistered() {
		types.RegisterExternalAddress(verifModule, types.EthereumAddress{})
	}
}

func verifChainRegistered() bool {
	for _, c := range types.GetSupportChains() {
		if c == verifModule {
			return true
		}
	}
	return false
}

// verifNewEnv builds a crosschain keeper for chain "eth" over empty model stores.
func verifNewEnv(height int64) *verifEnv {
	verifSetup()
	ms := models.NewMultiStore(verifModule)
	e := &verifEnv{ms: ms}
	e.ctx = models.NewContext(ms, height, 1700000000)
	e.k = Keeper{
		moduleName: verifModule,
		cdc:        models.NewCodec(verifRealCodec),
		storeKey:   models.NewStoreKey(verifModule),
		authority:  "fx10d07y265gmmuvt4z0w9aw880jnsr700jqjzsmz",
	}
	return e
}

func (e *verifEnv) store() *models.KVStore { return e.ms.Store(verifModule) }

// verifParamSet is one of the enumerated parameter configurations (products of two symbolic
// quantities are refused by the engine, so time parameters are concrete per path).
type verifParamSet struct {
	avgBlock, avgExtBlock, batchTimeout, bridgeCallTimeout uint64
}

var verifParamSets = []verifParamSet{
	{7000, 5000, 43_200_000, 604_800_000}, // defaults of DefaultParams / eth
	{100, 100, 60_000, 3_600_001},         // validation minima
	{7000, 15000, 43_200_000, 604_800_000},
}

func (e *verifEnv) setParams(ps verifParamSet, window uint64) types.Params {
	p := types.DefaultParams()
	p.AverageBlockTime = ps.avgBlock
	p.AverageExternalBlockTime = ps.avgExtBlock
	p.ExternalBatchTimeout = ps.batchTimeout
	p.BridgeCallTimeout = ps.bridgeCallTimeout
	p.SignedWindow = window
	e.store().Set(types.ParamsKey, e.k.cdc.MustMarshal(&p))
	return p
}

var _ = sdkmath.NewInt
