package types

import (
	"math/big"

	sdkmath "cosmossdk.io/math"
	gethcommon "github.com/ethereum/go-ethereum/common"
	"github.com/ethereum/go-ethereum/crypto"

	"github.com/functionx/fx-core/v8/contract"
	fxtypes "github.com/functionx/fx-core/v8/types"
	"github.com/functionx/fx-core/v8/zzverif/rt"
)

// verifPackByName encodes a checkpoint the way the bridge contract does: the contract hashes
// abi.encode of the parameters of its <name>Checkpoint function in declaration order; the values
// are looked up here by PARAMETER NAME in the contract ABI (regenerated from the current ABI on
// every run), independently of the argument order used by GetCheckpoint.
func verifPackByName(method string, byName map[string]interface{}) []byte {
	m, ok := contract.GetFxBridgeABI().Methods[method]
	if !ok {
		rt.Assert(false, "harness: the bridge ABI has the checkpoint helper")
		return nil
	}
	var args []interface{}
	for _, in := range m.Inputs {
		v, have := byName[in.Name]
		if !have {
			rt.Assert(false, "harness: every checkpoint parameter is known by name")
			return nil
		}
		args = append(args, v)
	}
	packed, err := contract.GetFxBridgeABI().Pack(method, args...)
	if err != nil {
		rt.Assert(false, "harness: reference packing")
		return nil
	}
	return crypto.Keccak256Hash(packed[4:]).Bytes()
}

// VerifC12CheckpointLayout: the digest fxcore signs over for a bridge call, a batch and an oracle
// set is the digest the bridge contract recomputes, i.e. every field sits in the parameter the
// contract ABI names for it (sender vs refund, amounts vs fees, nonce vs timeout vs event nonce).
// Fields of one type get distinct values so that any transposition changes the digest.
func VerifC12CheckpointLayout() {
	verifSetup()
	gid := "fx-bridge-eth"
	gidB, _ := fxtypes.StrToByte32(gid)
	tag := func(s string) [32]byte { b, _ := fxtypes.StrToByte32(s); return b }
	addr := func(i byte) string { a := gethcommon.Address{}; a[19] = i; return a.Hex() }
	// numeric fields: pairwise different (concrete: the engine refuses symbolic machine integers
	// flowing into big.Int, which is how the checkpoints are assembled)
	n1, n2, n3 := uint64(11), uint64(2222), uint64(333333)
	switch rt.Choose("object", 3) {
	case 0:
		call := &OutgoingBridgeCall{Sender: addr(1), Refund: addr(2), To: addr(3), Tokens: []ERC20Token{{Contract: addr(4), Amount: sdkmath.NewInt(70)}},
			Data: "aabb", Memo: "cc", Nonce: n1, Timeout: n2, EventNonce: n3}
		got, err := call.GetCheckpoint(gid)
		want := verifPackByName("bridgeCallCheckpoint", map[string]interface{}{"_fxbridgeId": gidB, "_methodName": tag("bridgeCall"),
			"_sender": gethcommon.HexToAddress(addr(1)), "_refund": gethcommon.HexToAddress(addr(2)), "_to": gethcommon.HexToAddress(addr(3)),
			"_tokens": []gethcommon.Address{gethcommon.HexToAddress(addr(4))}, "_amounts": []*big.Int{big.NewInt(70)},
			"_data": []byte{0xaa, 0xbb}, "_memo": []byte{0xcc}, "_nonce": new(big.Int).SetUint64(n1), "_timeout": new(big.Int).SetUint64(n2), "_eventNonce": new(big.Int).SetUint64(n3)})
		rt.Cover("bridge-call")
		rt.Assert(err == nil && rt.BytesEq(got, want), "the bridge-call checkpoint is the digest the contract recomputes")
	case 1:
		b := &OutgoingTxBatch{BatchNonce: n1, BatchTimeout: n2, TokenContract: addr(4), FeeReceive: addr(5),
			Transactions: []*OutgoingTransferTx{{Id: 1, Sender: "fx1", DestAddress: addr(6), Token: NewERC20Token(sdkmath.NewInt(70), addr(4)), Fee: NewERC20Token(sdkmath.NewInt(3), addr(4))}}}
		got, err := b.GetCheckpoint(gid)
		want := verifPackByName("submitBatchCheckpoint", map[string]interface{}{"_fxbridgeId": gidB, "_methodName": tag("transactionBatch"),
			"_amounts": []*big.Int{big.NewInt(70)}, "_destinations": []gethcommon.Address{gethcommon.HexToAddress(addr(6))}, "_fees": []*big.Int{big.NewInt(3)},
			"_batchNonce": new(big.Int).SetUint64(n1), "_tokenContract": gethcommon.HexToAddress(addr(4)), "_batchTimeout": new(big.Int).SetUint64(n2), "_feeReceive": gethcommon.HexToAddress(addr(5))})
		rt.Cover("batch")
		rt.Assert(err == nil && rt.BytesEq(got, want), "the batch checkpoint is the digest the contract recomputes")
	default:
		set := NewOracleSet(n1, 50, BridgeValidators{{Power: 3000, ExternalAddress: addr(7)}, {Power: 2000, ExternalAddress: addr(8)}})
		got, err := set.GetCheckpoint(gid)
		want := verifPackByName("oracleSetCheckpoint", map[string]interface{}{"_fxbridgeId": gidB, "_methodName": tag("checkpoint"), "_oracleSetNonce": new(big.Int).SetUint64(n1),
			"_oracles": []gethcommon.Address{gethcommon.HexToAddress(addr(7)), gethcommon.HexToAddress(addr(8))}, "_powers": []*big.Int{big.NewInt(3000), big.NewInt(2000)}})
		rt.Cover("oracle-set")
		rt.Assert(err == nil && rt.BytesEq(got, want), "the oracle-set checkpoint is the digest the contract recomputes")
	}
}
