package types

import (
	"math/big"

	sdkmath "cosmossdk.io/math"
	sdk "github.com/cosmos/cosmos-sdk/types"

	fxtypes "github.com/functionx/fx-core/v8/types"
	"github.com/functionx/fx-core/v8/zzverif/rt"
)

// hostile field values: what a protobuf-decoded message can carry. At most verifHostile fields of
// one message are ill-formed at once (ValidateBasic stops at the first error, so this bounds the
// combinations without hiding any single check or any interaction of two checks).
var verifHostile int

func verifIll(name string, shapes int) int {
	if verifHostile == 0 {
		return 0
	}
	k := rt.Choose(name+".shape", shapes)
	if k != 0 {
		verifHostile--
	}
	return k
}

func verifAnyAcc(name string) string {
	switch verifIll(name, 3) {
	case 0:
		return sdk.AccAddress(rt.Bytes(name, 20)).String() // a well-formed address
	case 1:
		return ""
	}
	junk := rt.Str(name, rt.Bound("junkTextLen", 7, 9)) // arbitrary printable text
	rt.Assume(rt.CharsIn(junk, verifPrintable()))
	return junk
}

func verifAnyExt(name string) string {
	switch verifIll(name, 4) {
	case 0:
		return verifExtAddr // well-formed, checksummed
	case 1:
		return ""
	case 2:
		return "0x" + rt.Str(name, 3) // too short, arbitrary bytes
	}
	return "0X" + verifExtAddr[2:] // right length, wrong prefix / checksum
}

const verifExtAddr = "0x5aAeb6053F3E94C9b9A09f33669435E7Ef1BeAed"

func verifPrintable() string {
	b := make([]byte, 0, 94)
	for c := byte(0x21); c <= 0x7e; c++ {
		b = append(b, c)
	}
	return string(b)
}

// hex text: empty or two arbitrary characters (valid or not), or an odd length
func verifAnyHex(name string) string {
	if verifIll(name, 2) == 1 {
		return rt.Str(name, 3)
	}
	return verifStrOf(name, 0, 2)
}

// verifAnyInt: absent (nil), or any value of either sign
func verifAnyInt(name string) sdkmath.Int {
	if verifIll(name+".nil", 2) == 1 {
		return sdkmath.Int{}
	}
	b := rt.BigInt(name)
	lim := new(big.Int).Lsh(big.NewInt(1), 100)
	rt.Assume(rt.And(b.Cmp(lim) < 0, b.Cmp(new(big.Int).Neg(lim)) > 0))
	return sdkmath.NewIntFromBigInt(b)
}

func verifAnyCoin(name string) sdk.Coin {
	denoms := []string{fxtypes.DefaultDenom, "", "bad denom!"}
	return sdk.Coin{Denom: denoms[verifIll(name+".denom", 3)], Amount: verifAnyInt(name + ".amount")}
}

func verifChainName() string { return []string{verifChain, "nosuchchain"}[rt.Choose("chainName", 2)] }

// VerifC20ValidateNoPanic: ValidateBasic of every crosschain message, on field values as hostile as
// a decoded transaction can make them (empty, junk bytes, well-formed; absent / negative / zero /
// positive integers; unknown chain), returns an error or nil but never panics; and when it returns
// nil the accessors that rely on it (GetClaimer, GetSigners, MustData, MustMemo, Get*Addr, ...)
// do not panic either.
func verifC20Validate(kind int) {
	verifSetup()
	verifHostile = rt.Bound("illFormedFieldsAtOnce", 2, 3)
	chain := verifChainName()
	switch kind {
	case 0:
		m := &MsgBondedOracle{ChainName: chain, OracleAddress: verifAnyAcc("oracle"), BridgerAddress: verifAnyAcc("bridger"), ExternalAddress: verifAnyExt("external"),
			ValidatorAddress: verifAnyAcc("validator"), DelegateAmount: verifAnyCoin("delegate")}
		_ = m.ValidateBasic()
	case 1:
		m := &MsgAddDelegate{ChainName: chain, OracleAddress: verifAnyAcc("oracle"), Amount: verifAnyCoin("amount")}
		_ = m.ValidateBasic()
	case 2:
		m := &MsgEditBridger{ChainName: chain, OracleAddress: verifAnyAcc("oracle"), BridgerAddress: verifAnyAcc("bridger")}
		_ = m.ValidateBasic()
	case 3:
		m := &MsgSendToExternal{ChainName: chain, Sender: verifAnyAcc("sender"), Dest: verifAnyExt("dest"), Amount: verifAnyCoin("amount"), BridgeFee: verifAnyCoin("fee")}
		_ = m.ValidateBasic()
	case 4:
		m := &MsgRequestBatch{ChainName: chain, Sender: verifAnyAcc("sender"), Denom: []string{"", "usdt"}[rt.Choose("denom", 2)], MinimumFee: verifAnyInt("minimumFee"),
			FeeReceive: verifAnyExt("feeReceive"), BaseFee: verifAnyInt("baseFee")}
		_ = m.ValidateBasic()
	case 5:
		m := &MsgConfirmBatch{ChainName: chain, Nonce: rt.U64("nonce"), TokenContract: verifAnyExt("token"), BridgerAddress: verifAnyAcc("bridger"),
			ExternalAddress: verifAnyExt("external"), Signature: verifAnyHex("signature")}
		_ = m.ValidateBasic()
	case 6:
		m := &MsgIncreaseBridgeFee{ChainName: chain, TransactionId: rt.U64("txid"), Sender: verifAnyAcc("sender"), AddBridgeFee: verifAnyCoin("fee")}
		_ = m.ValidateBasic()
	case 7:
		m := &MsgCancelSendToExternal{ChainName: chain, TransactionId: rt.U64("txid"), Sender: verifAnyAcc("sender")}
		_ = m.ValidateBasic()
	case 8:
		m := &MsgSendToFxClaim{ChainName: chain, EventNonce: rt.U64("nonce"), BlockHeight: rt.U64("height"), TokenContract: verifAnyExt("token"), Amount: verifAnyInt("amount"),
			Sender: verifAnyExt("sender"), Receiver: verifAnyAcc("receiver"), TargetIbc: verifAnyHex("target"), BridgerAddress: verifAnyAcc("bridger")}
		if m.ValidateBasic() == nil {
			rt.Cover("valid-claim")
			_ = m.GetClaimer()
		}
	case 9:
		m := &MsgBridgeCallClaim{ChainName: chain, EventNonce: rt.U64("nonce"), BlockHeight: rt.U64("height"), Sender: verifAnyExt("sender"), Refund: verifAnyExt("refund"),
			To: verifAnyExt("to"), TxOrigin: verifAnyExt("origin"), Data: verifAnyHex("data"), Memo: verifAnyHex("memo"), Value: verifAnyInt("value"), BridgerAddress: verifAnyAcc("bridger")}
		nTok, nAmt := rt.Choose("tokens", 2), rt.Choose("amounts", 2)
		for i := 0; i < nTok; i++ {
			m.TokenContracts = append(m.TokenContracts, verifAnyExt("token"))
		}
		for i := 0; i < nAmt; i++ {
			m.Amounts = append(m.Amounts, verifAnyInt("amount"))
		}
		if m.ValidateBasic() == nil {
			rt.Cover("valid-claim")
			_ = m.GetClaimer()
			_, _, _ = m.GetSenderAddr(), m.GetRefundAddr(), m.GetToAddr()
			_, _ = m.MustData(), m.MustMemo()
			_ = m.IsMemoSendCallTo()
			_ = m.GetTokensAddr()
			_ = m.GetAmounts()
		}
	case 10:
		m := &MsgBridgeCallResultClaim{ChainName: chain, EventNonce: rt.U64("nonce"), BlockHeight: rt.U64("height"), Nonce: rt.U64("bcnonce"), TxOrigin: verifAnyExt("origin"),
			Success: rt.Bool("success"), Cause: verifAnyHex("cause"), BridgerAddress: verifAnyAcc("bridger")}
		if m.ValidateBasic() == nil {
			rt.Cover("valid-claim")
			_ = m.GetClaimer()
		}
	case 11:
		m := &MsgBridgeTokenClaim{ChainName: chain, EventNonce: rt.U64("nonce"), BlockHeight: rt.U64("height"), TokenContract: verifAnyExt("token"), Name: verifStrOf("name", 0, 2),
			Symbol: verifStrOf("symbol", 0, 2), Decimals: rt.U64("decimals"), ChannelIbc: verifAnyHex("channel"), BridgerAddress: verifAnyAcc("bridger")}
		if m.ValidateBasic() == nil {
			rt.Cover("valid-claim")
			_ = m.GetClaimer()
		}
	case 12:
		m := &MsgOracleSetUpdatedClaim{ChainName: chain, EventNonce: rt.U64("nonce"), BlockHeight: rt.U64("height"), OracleSetNonce: rt.U64("osnonce"), BridgerAddress: verifAnyAcc("bridger")}
		n := rt.Choose("members", 3)
		for i := 0; i < n; i++ {
			m.Members = append(m.Members, BridgeValidator{Power: rt.U64("power"), ExternalAddress: verifAnyExt("member")})
		}
		if m.ValidateBasic() == nil {
			rt.Cover("valid-claim")
			_ = m.GetClaimer()
		}
	default:
		m := &MsgBridgeCall{ChainName: chain, Sender: verifAnyAcc("sender"), Refund: verifAnyAcc("refund"), To: verifAnyExt("to"), Data: verifAnyHex("data"), Memo: verifAnyHex("memo"),
			Value: verifAnyInt("value")}
		if rt.Bool("withCoin") {
			m.Coins = sdk.Coins{verifAnyCoin("coin")}
		}
		if m.ValidateBasic() == nil {
			rt.Cover("valid-bridge-call")
			_ = m.GetSigners()
			_, _, _ = m.GetSenderAddr(), m.GetRefundAddr(), m.GetToAddr()
			_, _ = m.MustData(), m.MustMemo()
		}
	}
	rt.Cover("returned")
}

func VerifC20ValidateBondedOracle()          { verifC20Validate(0) }
func VerifC20ValidateAddDelegate()           { verifC20Validate(1) }
func VerifC20ValidateEditBridger()           { verifC20Validate(2) }
func VerifC20ValidateSendToExternal()        { verifC20Validate(3) }
func VerifC20ValidateRequestBatch()          { verifC20Validate(4) }
func VerifC20ValidateConfirmBatch()          { verifC20Validate(5) }
func VerifC20ValidateIncreaseBridgeFee()     { verifC20Validate(6) }
func VerifC20ValidateCancelSendToExternal()  { verifC20Validate(7) }
func VerifC20ValidateSendToFxClaim()         { verifC20Validate(8) }
func VerifC20ValidateBridgeCallClaim()       { verifC20Validate(9) }
func VerifC20ValidateBridgeCallResultClaim() { verifC20Validate(10) }
func VerifC20ValidateBridgeTokenClaim()      { verifC20Validate(11) }
func VerifC20ValidateOracleSetUpdatedClaim() { verifC20Validate(12) }
func VerifC20ValidateBridgeCall()            { verifC20Validate(13) }
