package types

import (
	"encoding/hex"
	"math/big"

	sdkmath "cosmossdk.io/math"
	sdk "github.com/cosmos/cosmos-sdk/types"

	fxtypes "github.com/functionx/fx-core/v8/types"
	"github.com/functionx/fx-core/v8/zzverif/rt"
)

const verifChain = "eth"

const (
	verifHexSet    = "0123456789abcdefABCDEF"
	verifEthSet    = verifHexSet + "x"
	verifBech32Set = "0123456789abcdefghijklmnopqrstuvwxyz"
)

// verifSetup makes the package-level registries look as they do in the running application.
func verifSetup() {
	if sdk.GetConfig().GetBech32AccountAddrPrefix() != fxtypes.AddressPrefix {
		fxtypes.SetConfig(false)
	}
	if _, ok := externalAddressRouter[verifChain]; !ok {
		RegisterExternalAddress(verifChain, EthereumAddress{})
	}
}

// bridger address: not part of any claim hash (it differs per voter by design)
func verifBridger() string { return sdk.AccAddress(make([]byte, 20)).String() }

func verifNumBound() int { return rt.Bound("numericFieldBelow", 100, 1000) }

func verifSmallU64(name string) uint64 {
	v := rt.U64(name)
	rt.Assume(v < uint64(verifNumBound()))
	return v
}

func verifSmallInt(name string) sdkmath.Int {
	b := rt.BigInt(name)
	rt.Assume(rt.And(b.Cmp(big.NewInt(int64(verifNumBound()))) < 0, b.Sign() >= 0))
	return sdkmath.NewIntFromBigInt(b)
}

// verifStrOf returns an arbitrary string whose length is one of lens.
func verifStrOf(name string, lens ...int) string {
	k := rt.Choose(name+".len", len(lens))
	return rt.Str(name, lens[k])
}

// ---- alphabets established by validation (lemma harnesses) and assumed by the injectivity harnesses

// eth-style external address as accepted by ValidateExternalAddr: see VerifC03LemmaExternalAddr
func verifValidEthAddr(name string) string {
	k := rt.Bound("symbolicCharsPerAddress", 6, 8)
	s := rt.Str(name, k)
	rt.Assume(rt.CharsIn(s, verifEthSet))
	for len(s) < 42 {
		s += "0" // quick tier: the tail of the address text is fixed
	}
	return s
}

// hex free-form field as accepted by hex.DecodeString: see VerifC03LemmaHexField
func verifValidHex(name string, lens ...int) string {
	s := verifStrOf(name, lens...)
	rt.Assume(rt.CharsIn(s, verifHexSet))
	return s
}

func verifBech32(name string) string { return sdk.AccAddress(rt.Bytes(name, 20)).String() }

// VerifC03LemmaExternalAddr: a string accepted as external address of an Ethereum-style chain has
// exactly 42 bytes, all of them hex digits or 'x' (so it contains none of the separators used by
// the claim-hash paths: '/', ' ', '[', ']', '{', '}').
func VerifC03LemmaExternalAddr() {
	verifSetup()
	s := verifStrOf("addr", 0, 1, 41, 42, 43)
	err := ValidateExternalAddr(verifChain, s)
	if err == nil {
		rt.Cover("accepted")
		rt.Assert(len(s) == 42, "accepted external address has 42 bytes")
		rt.Assert(rt.CharsIn(s, verifEthSet), "accepted external address is made of hex digits and x")
	} else {
		rt.Cover("rejected")
	}
}

// VerifC03LemmaHexField: a non-empty string accepted by hex.DecodeString consists of hex digits.
func VerifC03LemmaHexField() {
	s := verifStrOf("hex", 0, 1, 2, 3, 4, 6)
	_, err := hex.DecodeString(s)
	if err == nil {
		rt.Cover("accepted")
		rt.Assert(rt.CharsIn(s, verifHexSet), "accepted hex field is made of hex digits")
		rt.Assert(len(s)%2 == 0, "accepted hex field has even length")
	} else {
		rt.Cover("rejected")
	}
}

// ---- lemma: ValidateBasic applies the field validators (one claim, arbitrary field texts)

func VerifC03ValidSendToFx() {
	verifSetup()
	m := &MsgSendToFxClaim{
		EventNonce: rt.U64("nonce"), BlockHeight: rt.U64("height"),
		TokenContract: verifStrOf("token", 42, 43), Sender: verifStrOf("sender", 42, 41),
		Amount: verifSmallInt("amount"), Receiver: verifBech32("receiver"), TargetIbc: verifStrOf("target", 0, 2, 3),
		BridgerAddress: verifBridger(), ChainName: verifChain,
	}
	if m.ValidateBasic() != nil {
		rt.Cover("rejected")
		return
	}
	rt.Cover("accepted")
	rt.Assert(ValidateExternalAddr(verifChain, m.TokenContract) == nil, "sendtofx valid => token contract validated")
	rt.Assert(ValidateExternalAddr(verifChain, m.Sender) == nil, "sendtofx valid => sender validated")
	rt.Assert(rt.CharsIn(m.TargetIbc, verifHexSet), "sendtofx valid => target is hex")
	rt.Assert(rt.And(m.EventNonce != 0, m.BlockHeight != 0), "sendtofx valid => nonce and height non-zero")
}

func VerifC03ValidBridgeCall() {
	verifSetup()
	nTok := rt.Choose("ntokens", 2)
	m := &MsgBridgeCallClaim{
		EventNonce: rt.U64("nonce"), BlockHeight: rt.U64("height"),
		Sender: verifStrOf("sender", 42, 43), Refund: verifStrOf("refund", 42, 41), To: verifStrOf("to", 42, 0),
		TxOrigin: verifStrOf("origin", 42, 1),
		Data:     verifStrOf("data", 0, 2, 3), Memo: verifStrOf("memo", 0, 2, 1), Value: verifSmallInt("value"),
		BridgerAddress: verifBridger(), ChainName: verifChain,
	}
	for i := 0; i < nTok; i++ {
		m.TokenContracts = append(m.TokenContracts, verifStrOf("token", 42, 43))
		m.Amounts = append(m.Amounts, verifSmallInt("amount"))
	}
	if m.ValidateBasic() != nil {
		rt.Cover("rejected")
		return
	}
	rt.Cover("accepted")
	rt.Assert(ValidateExternalAddr(verifChain, m.Sender) == nil, "bridgecall valid => sender validated")
	rt.Assert(ValidateExternalAddr(verifChain, m.Refund) == nil, "bridgecall valid => refund validated")
	rt.Assert(ValidateExternalAddr(verifChain, m.To) == nil, "bridgecall valid => to validated")
	rt.Assert(ValidateExternalAddr(verifChain, m.TxOrigin) == nil, "bridgecall valid => tx origin validated")
	for i := range m.TokenContracts {
		rt.Assert(ValidateExternalAddr(verifChain, m.TokenContracts[i]) == nil, "bridgecall valid => token contracts validated")
	}
	rt.Assert(rt.CharsIn(m.Data, verifHexSet), "bridgecall valid => data is hex")
	rt.Assert(rt.CharsIn(m.Memo, verifHexSet), "bridgecall valid => memo is hex")
}

func VerifC03ValidOthers() {
	verifSetup()
	switch rt.Choose("type", 4) {
	case 0:
		m := &MsgBridgeCallResultClaim{EventNonce: rt.U64("nonce"), BlockHeight: rt.U64("height"), Nonce: rt.U64("bcnonce"),
			TxOrigin: verifStrOf("origin", 42, 43), Success: rt.Bool("success"), Cause: verifStrOf("cause", 0, 2, 3),
			BridgerAddress: verifBridger(), ChainName: verifChain}
		if m.ValidateBasic() != nil {
			rt.Cover("rejected")
			return
		}
		rt.Cover("accepted")
		rt.Assert(ValidateExternalAddr(verifChain, m.TxOrigin) == nil, "bridgecallresult valid => tx origin validated")
		rt.Assert(rt.CharsIn(m.Cause, verifHexSet), "bridgecallresult valid => cause is hex")
	case 1:
		m := &MsgSendToExternalClaim{EventNonce: rt.U64("nonce"), BlockHeight: rt.U64("height"), BatchNonce: rt.U64("batch"),
			TokenContract: verifStrOf("token", 42, 43), BridgerAddress: verifBridger(), ChainName: verifChain}
		if m.ValidateBasic() != nil {
			rt.Cover("rejected")
			return
		}
		rt.Cover("accepted")
		rt.Assert(ValidateExternalAddr(verifChain, m.TokenContract) == nil, "sendtoexternal valid => token contract validated")
	case 2:
		m := &MsgBridgeTokenClaim{EventNonce: rt.U64("nonce"), BlockHeight: rt.U64("height"), Decimals: rt.U64("decimals"),
			TokenContract: verifStrOf("token", 42, 43), Name: verifStrOf("name", 0, 2), Symbol: verifStrOf("symbol", 0, 2),
			ChannelIbc: verifStrOf("channel", 0, 2, 3), BridgerAddress: verifBridger(), ChainName: verifChain}
		if m.ValidateBasic() != nil {
			rt.Cover("rejected")
			return
		}
		rt.Cover("accepted")
		rt.Assert(ValidateExternalAddr(verifChain, m.TokenContract) == nil, "bridgetoken valid => token contract validated")
		rt.Assert(rt.CharsIn(m.ChannelIbc, verifHexSet), "bridgetoken valid => channel is hex")
	default:
		m := &MsgOracleSetUpdatedClaim{EventNonce: rt.U64("nonce"), BlockHeight: rt.U64("height"), OracleSetNonce: rt.U64("osnonce"),
			BridgerAddress: verifBridger(), ChainName: verifChain}
		n := rt.Choose("members", 3)
		for i := 0; i < n; i++ {
			m.Members = append(m.Members, BridgeValidator{Power: rt.U64("power"), ExternalAddress: verifStrOf("member", 42, 43)})
		}
		if m.ValidateBasic() != nil {
			rt.Cover("rejected")
			return
		}
		rt.Cover("accepted")
		for i := range m.Members {
			rt.Assert(ValidateExternalAddr(verifChain, m.Members[i].ExternalAddress) == nil, "oraclesetupdated valid => member addresses validated")
		}
	}
}

// ---- injectivity of the claim hash on execution-relevant fields

func verifSendToFx(p string) *MsgSendToFxClaim {
	return &MsgSendToFxClaim{
		EventNonce:     verifSmallU64(p + "nonce"),
		BlockHeight:    verifSmallU64(p + "height"),
		TokenContract:  verifValidEthAddr(p + "token"),
		Amount:         verifSmallInt(p + "amount"),
		Sender:         verifValidEthAddr(p + "sender"),
		Receiver:       verifBech32(p + "receiver"),
		TargetIbc:      verifValidHex(p+"target", 0, 2),
		BridgerAddress: verifBridger(),
		ChainName:      verifChain,
	}
}

// VerifC03SendToFx: two SendToFx claims with equal event nonce and equal ClaimHash agree on every
// field the handler reads.
func VerifC03SendToFx() {
	verifSetup()
	a, b := verifSendToFx("a."), verifSendToFx("b.")
	b.EventNonce = a.EventNonce // same event nonce (the quantifier of the property)
	rt.Assume(rt.BytesEq(a.ClaimHash(), b.ClaimHash()))
	rt.Cover("same-hash")
	rt.Assert(a.BlockHeight == b.BlockHeight, "sendtofx: block height")
	rt.Assert(rt.StrEq(a.TokenContract, b.TokenContract), "sendtofx: token contract")
	rt.Assert(rt.StrEq(a.Sender, b.Sender), "sendtofx: sender")
	rt.Assert(a.Amount.Equal(b.Amount), "sendtofx: amount")
	rt.Assert(rt.StrEq(a.Receiver, b.Receiver), "sendtofx: receiver")
	rt.Assert(rt.BytesEq(verifHexBytes(a.TargetIbc), verifHexBytes(b.TargetIbc)), "sendtofx: target")
}

func verifBridgeCall(p string, nTok int) *MsgBridgeCallClaim {
	m := &MsgBridgeCallClaim{
		EventNonce: verifSmallU64(p + "nonce"), BlockHeight: verifSmallU64(p + "height"),
		Sender: verifValidEthAddr(p + "sender"), Refund: verifValidEthAddr(p + "refund"), To: verifValidEthAddr(p + "to"),
		TxOrigin: verifValidEthAddr(p + "origin"),
		Data:     verifValidHex(p+"data", 0, 2), Memo: verifValidHex(p+"memo", 0, 2), Value: verifSmallInt(p + "value"),
		BridgerAddress: verifBridger(), ChainName: verifChain,
	}
	for i := 0; i < nTok; i++ {
		m.TokenContracts = append(m.TokenContracts, verifValidEthAddr(p+"token"))
		m.Amounts = append(m.Amounts, verifSmallInt(p+"amount"))
	}
	return m
}

// VerifC03BridgeCall: as above for inbound bridge calls (memo selects receiver and call mode in
// BridgeCallHandler, tx origin is passed to the EVM call, so both are execution-relevant).
func VerifC03BridgeCall() {
	verifSetup()
	maxTok := rt.Bound("maxTokens", 1, 1)
	a := verifBridgeCall("a.", rt.Choose("a.ntokens", maxTok+1))
	b := verifBridgeCall("b.", rt.Choose("b.ntokens", maxTok+1))
	b.EventNonce = a.EventNonce // same event nonce (the quantifier of the property)
	rt.Assume(rt.BytesEq(a.ClaimHash(), b.ClaimHash()))
	rt.Cover("same-hash")
	rt.Assert(a.BlockHeight == b.BlockHeight, "bridgecall: block height")
	rt.Assert(rt.StrEq(a.Sender, b.Sender), "bridgecall: sender")
	rt.Assert(rt.StrEq(a.Refund, b.Refund), "bridgecall: refund")
	rt.Assert(rt.StrEq(a.To, b.To), "bridgecall: to")
	rt.Assert(rt.BytesEq(a.MustData(), b.MustData()), "bridgecall: data")
	rt.Assert(a.Value.Equal(b.Value), "bridgecall: value")
	rt.Assert(len(a.TokenContracts) == len(b.TokenContracts), "bridgecall: number of tokens")
	if len(a.TokenContracts) == len(b.TokenContracts) {
		for i := range a.TokenContracts {
			rt.Assert(rt.StrEq(a.TokenContracts[i], b.TokenContracts[i]), "bridgecall: token contract")
			rt.Assert(a.Amounts[i].Equal(b.Amounts[i]), "bridgecall: token amount")
		}
	}
	rt.Known("C03-bridgecall-hash-omits-memo", rt.Not(rt.BytesEq(a.MustMemo(), b.MustMemo())))
	rt.Assert(rt.BytesEq(a.MustMemo(), b.MustMemo()), "bridgecall: memo")
	rt.Known("C03-bridgecall-hash-omits-txorigin", rt.Not(rt.StrEq(a.TxOrigin, b.TxOrigin)))
	rt.Assert(rt.StrEq(a.TxOrigin, b.TxOrigin), "bridgecall: tx origin")
}

func verifBridgeCallResult(p string) *MsgBridgeCallResultClaim {
	return &MsgBridgeCallResultClaim{EventNonce: verifSmallU64(p + "nonce"), BlockHeight: verifSmallU64(p + "height"), Nonce: verifSmallU64(p + "bcnonce"),
		TxOrigin: verifValidEthAddr(p + "origin"), Success: rt.Bool(p + "success"), Cause: verifValidHex(p+"cause", 0, 2),
		BridgerAddress: verifBridger(), ChainName: verifChain}
}

// VerifC03BridgeCallResult: BridgeCallResultHandler reads Nonce, Success, Cause (TxOrigin is not used by it).
func VerifC03BridgeCallResult() {
	verifSetup()
	a, b := verifBridgeCallResult("a."), verifBridgeCallResult("b.")
	b.EventNonce = a.EventNonce // same event nonce (the quantifier of the property)
	rt.Assume(rt.BytesEq(a.ClaimHash(), b.ClaimHash()))
	rt.Cover("same-hash")
	rt.Assert(a.BlockHeight == b.BlockHeight, "bridgecallresult: block height")
	rt.Assert(a.Nonce == b.Nonce, "bridgecallresult: bridge call nonce")
	rt.Assert(a.Success == b.Success, "bridgecallresult: success flag")
	rt.Assert(rt.StrEq(a.Cause, b.Cause), "bridgecallresult: cause")
}

func verifSendToExternal(p string) *MsgSendToExternalClaim {
	return &MsgSendToExternalClaim{EventNonce: verifSmallU64(p + "nonce"), BlockHeight: verifSmallU64(p + "height"), BatchNonce: verifSmallU64(p + "batch"),
		TokenContract: verifValidEthAddr(p + "token"), BridgerAddress: verifBridger(), ChainName: verifChain}
}

func VerifC03SendToExternal() {
	verifSetup()
	a, b := verifSendToExternal("a."), verifSendToExternal("b.")
	b.EventNonce = a.EventNonce // same event nonce (the quantifier of the property)
	rt.Assume(rt.BytesEq(a.ClaimHash(), b.ClaimHash()))
	rt.Cover("same-hash")
	rt.Assert(a.BlockHeight == b.BlockHeight, "sendtoexternal: block height")
	rt.Assert(a.BatchNonce == b.BatchNonce, "sendtoexternal: batch nonce")
	rt.Assert(rt.StrEq(a.TokenContract, b.TokenContract), "sendtoexternal: token contract")
}

func verifBridgeToken(p string) *MsgBridgeTokenClaim {
	maxLen := rt.Bound("maxFreeText", 3, 3)
	lens := make([]int, 0, maxLen)
	for l := 1; l <= maxLen; l++ {
		lens = append(lens, l)
	}
	return &MsgBridgeTokenClaim{EventNonce: verifSmallU64(p + "nonce"), BlockHeight: verifSmallU64(p + "height"), Decimals: verifSmallU64(p + "decimals"),
		TokenContract: verifValidEthAddr(p + "token"), Name: verifStrOf(p+"name", lens...), Symbol: verifStrOf(p+"symbol", lens...),
		ChannelIbc: verifValidHex(p+"channel", 0, 2), BridgerAddress: verifBridger(), ChainName: verifChain}
}

// VerifC03BridgeToken: AddBridgeTokenExecuted reads TokenContract, Symbol (== "FX" switches the
// mapping) and Decimals; Name and Symbol are free text (only non-emptiness is validated).
func VerifC03BridgeToken() {
	verifSetup()
	a, b := verifBridgeToken("a."), verifBridgeToken("b.")
	b.EventNonce = a.EventNonce // same event nonce (the quantifier of the property)
	rt.Assume(rt.BytesEq(a.ClaimHash(), b.ClaimHash()))
	rt.Cover("same-hash")
	rt.Assert(a.BlockHeight == b.BlockHeight, "bridgetoken: block height")
	rt.Assert(rt.StrEq(a.TokenContract, b.TokenContract), "bridgetoken: token contract")
	rt.Known("C03-bridgetoken-name-symbol-split", rt.Not(rt.StrEq(a.Symbol, b.Symbol)))
	rt.Assert(rt.StrEq(a.Symbol, b.Symbol), "bridgetoken: symbol")
	rt.Known("C03-bridgetoken-name-symbol-split", rt.Not(rt.StrEq(a.Symbol, b.Symbol)))
	rt.Assert(a.Decimals == b.Decimals, "bridgetoken: decimals")
}

func verifOracleSetUpdated(p string, n int) *MsgOracleSetUpdatedClaim {
	m := &MsgOracleSetUpdatedClaim{EventNonce: verifSmallU64(p + "nonce"), BlockHeight: verifSmallU64(p + "height"), OracleSetNonce: verifSmallU64(p + "osnonce"),
		BridgerAddress: verifBridger(), ChainName: verifChain}
	for i := 0; i < n; i++ {
		m.Members = append(m.Members, BridgeValidator{Power: verifSmallU64(p + "power"), ExternalAddress: verifValidEthAddr(p + "member")})
	}
	return m
}

func VerifC03OracleSetUpdated() {
	verifSetup()
	maxM := rt.Bound("maxMembers", 2, 2)
	a := verifOracleSetUpdated("a.", 1+rt.Choose("a.members", maxM))
	b := verifOracleSetUpdated("b.", 1+rt.Choose("b.members", maxM))
	b.EventNonce = a.EventNonce // same event nonce (the quantifier of the property)
	rt.Assume(rt.BytesEq(a.ClaimHash(), b.ClaimHash()))
	rt.Cover("same-hash")
	rt.Assert(a.BlockHeight == b.BlockHeight, "oraclesetupdated: block height")
	rt.Assert(a.OracleSetNonce == b.OracleSetNonce, "oraclesetupdated: oracle set nonce")
	rt.Assert(len(a.Members) == len(b.Members), "oraclesetupdated: number of members")
	if len(a.Members) == len(b.Members) {
		for i := range a.Members {
			rt.Assert(a.Members[i].Power == b.Members[i].Power, "oraclesetupdated: member power")
			rt.Assert(rt.StrEq(a.Members[i].ExternalAddress, b.Members[i].ExternalAddress), "oraclesetupdated: member address")
		}
	}
}

func verifHexBytes(s string) []byte {
	bz, err := hex.DecodeString(s)
	if err != nil {
		rt.Assert(false, "harness: field assumed to be hex does not decode")
	}
	return bz
}

// VerifC03BridgeCallSplit: the same question for bridge-call claims whose free-form fields are
// long enough to embed a whole "/value/txOrigin/" run: (data, value, tx origin, memo) cannot be
// re-split into a different valid claim with the same hash. Everything else is equal and concrete.
func VerifC03BridgeCallSplit() {
	verifSetup()
	long := 2 * (1 + 1 + 1 + 42 + 1 + 1 + 1) // hex digits of: x / v / <42-byte origin> / y
	mk := func(p string) *MsgBridgeCallClaim {
		v := rt.BigInt(p + "value")
		rt.Assume(rt.And(v.Sign() >= 0, v.Cmp(big.NewInt(10)) < 0))
		return &MsgBridgeCallClaim{EventNonce: 7, BlockHeight: 9,
			Sender: "0x0000000000000000000000000000000000000001", Refund: "0x0000000000000000000000000000000000000002", To: "0x0000000000000000000000000000000000000003",
			TxOrigin: verifValidEthAddr(p + "origin"), Data: verifValidHex(p+"data", 2, long), Memo: verifValidHex(p+"memo", 2, long),
			Value: sdkmath.NewIntFromBigInt(v), BridgerAddress: verifBridger(), ChainName: verifChain}
	}
	a, b := mk("a."), mk("b.")
	rt.Assume(rt.BytesEq(a.ClaimHash(), b.ClaimHash()))
	rt.Cover("same-hash")
	rt.Assert(rt.BytesEq(a.MustData(), b.MustData()), "bridgecall split: data")
	rt.Assert(a.Value.Equal(b.Value), "bridgecall split: value")
	rt.Assert(rt.StrEq(a.TxOrigin, b.TxOrigin), "bridgecall split: tx origin")
	rt.Assert(rt.BytesEq(a.MustMemo(), b.MustMemo()), "bridgecall split: memo")
}

// verifTargetSpellings: the cross-chain / IBC target spellings the handler distinguishes or
// treats alike (the hash must tell apart any two that are different texts).
var verifTargetSpellings = []string{"", "erc20", "module/evm", "gravity", "chain/gravity", "eth", "ibc/0/px", "px/transfer/channel-0", "channel-0/px", "ibc/px/transfer/channel-0"}

// VerifC03SendToFxTargets: two SendToFx claims that differ at most in the spelling of their
// target (taken from the spellings the target parser knows, including pairs that parse to the
// same destination and pairs of which one is the other's canonical rendering) have the same
// ClaimHash only if the target texts are identical.
func VerifC03SendToFxTargets() {
	verifSetup()
	a := verifSendToFx("a.")
	b := &MsgSendToFxClaim{EventNonce: a.EventNonce, BlockHeight: a.BlockHeight, TokenContract: a.TokenContract, Sender: a.Sender, Amount: a.Amount, Receiver: a.Receiver,
		BridgerAddress: a.BridgerAddress, ChainName: a.ChainName}
	ta := verifTargetSpellings[rt.Choose("a.targetSpelling", len(verifTargetSpellings))]
	tb := verifTargetSpellings[rt.Choose("b.targetSpelling", len(verifTargetSpellings))]
	a.TargetIbc, b.TargetIbc = hex.EncodeToString([]byte(ta)), hex.EncodeToString([]byte(tb))
	rt.Assume(rt.BytesEq(a.ClaimHash(), b.ClaimHash()))
	rt.Cover("same-hash")
	rt.Assert(ta == tb, "sendtofx: target spelling")
}
