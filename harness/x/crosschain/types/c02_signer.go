package types

import (
	codectypes "github.com/cosmos/cosmos-sdk/codec/types"
	sdk "github.com/cosmos/cosmos-sdk/types"

	"github.com/functionx/fx-core/v8/zzverif/rt"
)

// VerifC02SignerBinding: the account that has to sign a MsgClaim transaction is the one named by
// the message's proto signer option (the wrapper's bridger_address: the registry pre-check re-reads
// that option from tx.proto on every run); the vote is counted for the wrapped claim's bridger.
// For every MsgClaim accepted by ValidateBasic the two must be the same account.
func VerifC02SignerBinding() {
	verifSetup()
	wrapper := sdk.AccAddress(rt.Bytes("wrapperBridger", 20))
	inner := sdk.AccAddress(rt.Bytes("claimBridger", 20))
	var claim ExternalClaim
	switch rt.Choose("claimType", 3) {
	case 0:
		claim = &MsgSendToExternalClaim{EventNonce: 1, BlockHeight: 1, BatchNonce: 1, TokenContract: "0x0000000000000000000000000000000000000001",
			BridgerAddress: inner.String(), ChainName: verifChain}
	case 1:
		claim = &MsgBridgeCallResultClaim{EventNonce: 1, BlockHeight: 1, Nonce: 1, TxOrigin: "0x0000000000000000000000000000000000000001", Success: true,
			BridgerAddress: inner.String(), ChainName: verifChain}
	default:
		claim = &MsgBridgeTokenClaim{EventNonce: 1, BlockHeight: 1, TokenContract: "0x0000000000000000000000000000000000000001", Name: "n", Symbol: "s", Decimals: 18,
			BridgerAddress: inner.String(), ChainName: verifChain}
	}
	anyClaim, err := codectypes.NewAnyWithValue(claim)
	if err != nil {
		rt.Assert(false, "harness: cannot pack claim")
	}
	msg := &MsgClaim{ChainName: verifChain, BridgerAddress: wrapper.String(), Claim: anyClaim}
	if msg.ValidateBasic() != nil {
		rt.Cover("rejected")
		return
	}
	rt.Cover("accepted")
	counted := claim.GetClaimer()
	rt.Assert(rt.BytesEq(counted, wrapper), "accepted MsgClaim: the signer (wrapper bridger) is the bridger the vote is counted for")
}
