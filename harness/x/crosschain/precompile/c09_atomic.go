package precompile

import (
	"math/big"

	sdkmath "cosmossdk.io/math"
	"github.com/cosmos/cosmos-sdk/codec"
	codectypes "github.com/cosmos/cosmos-sdk/codec/types"
	sdk "github.com/cosmos/cosmos-sdk/types"
	"github.com/ethereum/go-ethereum/common"
	"github.com/ethereum/go-ethereum/core/vm"

	fxtypes "github.com/functionx/fx-core/v8/types"
	crosschainkeeper "github.com/functionx/fx-core/v8/x/crosschain/keeper"
	crosschaintypes "github.com/functionx/fx-core/v8/x/crosschain/types"
	erc20keeper "github.com/functionx/fx-core/v8/x/erc20/keeper"
	erc20types "github.com/functionx/fx-core/v8/x/erc20/types"
	"github.com/functionx/fx-core/v8/zzverif/models"
	"github.com/functionx/fx-core/v8/zzverif/rt"
)

const (
	verifChain  = "eth"
	verifAddr1  = "0x0000000000000000000000000000000000000001"
	verifAddr2  = "0x0000000000000000000000000000000000000002"
	verifAuthor = "fx10d07y265gmmuvt4z0w9aw880jnsr700jqjzsmz"
)

type verifPcEnv struct {
	ms   *models.MultiStore
	ctx  sdk.Context
	bank *models.Bank
	tok  *models.Erc20
	evmk *models.EVM
	ck   crosschainkeeper.Keeper
	sdb  *models.StateDB
	evm  *vm.EVM
	k    *Keeper
}

func verifRealCodec() codec.BinaryCodec {
	reg := codectypes.NewInterfaceRegistry()
	crosschaintypes.RegisterInterfaces(reg)
	return codec.NewProtoCodec(reg)
}

func verifChainRegistered() bool {
	for _, c := range crosschaintypes.GetSupportChains() {
		if c == verifChain {
			return true
		}
	}
	return false
}

// verifNewPcEnv: the crosschain precompile in front of a real crosschain keeper for chain "eth"
// and the real erc20 keeper, all on branch-aware models.
func verifNewPcEnv() *verifPcEnv {
	if sdk.GetConfig().GetBech32AccountAddrPrefix() != fxtypes.AddressPrefix {
		fxtypes.SetConfig(false)
	}
	if !verifChainRegistered() {
		crosschaintypes.RegisterExternalAddress(verifChain, crosschaintypes.EthereumAddress{})
	}
	ms := models.NewMultiStore(verifChain, erc20types.StoreKey)
	e := &verifPcEnv{ms: ms, bank: models.NewBank(ms), tok: models.NewErc20(ms), evmk: models.NewEVM()}
	e.ctx = models.NewContext(ms, 100, 1700000000)
	ek := erc20keeper.NewKeeper(models.NewStoreKey(erc20types.StoreKey), models.NewCodec(nil), models.Accounts{}, e.bank, e.evmk, e.tok, nil, verifAuthor)
	e.ck = crosschainkeeper.NewKeeper(models.NewCodec(verifRealCodec), verifChain, models.NewStoreKey(verifChain), nil, nil, nil, e.bank, nil, ek, models.Accounts{}, e.evmk, verifAuthor)
	p := crosschaintypes.DefaultParams()
	if err := e.ck.SetParams(e.ctx, &p); err != nil {
		panic(err)
	}
	router := NewRouter()
	router.AddRoute(verifChain, e.ck)
	e.k = &Keeper{router: router, bankKeeper: e.bank, erc20Keeper: ek, accountKeeper: models.Accounts{}}
	e.sdb = models.NewStateDB(e.ctx)
	e.evm = &vm.EVM{Context: vm.BlockContext{BlockNumber: big.NewInt(100)}, StateDB: e.sdb}
	return e
}

func verifPcFrame(caller common.Address, input []byte) *vm.Contract {
	c := vm.NewContract(vm.AccountRef(caller), vm.AccountRef(crosschaintypes.GetAddress()), big.NewInt(0), 1_000_000)
	c.Input = input
	return c
}

// VerifC09ExecuteClaim: the executeClaim precompile method (deferred execution of an observed
// claim). The Cosmos-side effects are kept iff the call returns without error: on success the
// parked claim is consumed, its effect applied once and a log left; on any failure - no parked
// claim, or a handler that fails after the claim record was already deleted - the native state is
// exactly what it was (the parked claim is still there, so it can run later, and never twice).
func VerifC09ExecuteClaim() {
	e := verifNewPcEnv()
	e.ck.SetLastObservedBlockHeight(e.ctx, 1000, 90)
	// an outgoing bridge call waiting for its result, and parked claims
	e.ck.SetOutgoingBridgeCall(e.ctx, &crosschaintypes.OutgoingBridgeCall{Nonce: 5, Timeout: 5000, BlockHeight: 50, Sender: verifAddr2, Refund: verifAddr2, To: verifAddr1})
	kind := rt.Choose("parkedClaim", 3) // 0 bridge-call result (succeeds), 1 deposit of an unregistered token (fails late), 2 nothing parked
	switch kind {
	case 0:
		e.ck.SavePendingExecuteClaim(e.ctx, &crosschaintypes.MsgBridgeCallResultClaim{ChainName: verifChain, BridgerAddress: sdk.AccAddress(make([]byte, 20)).String(),
			EventNonce: 1, BlockHeight: 900, Nonce: 5, TxOrigin: verifAddr2, Success: true})
	case 1:
		e.ck.SavePendingExecuteClaim(e.ctx, &crosschaintypes.MsgSendToFxClaim{ChainName: verifChain, BridgerAddress: sdk.AccAddress(make([]byte, 20)).String(),
			EventNonce: 1, BlockHeight: 900, TokenContract: verifAddr1, Amount: sdkmath.NewInt(5), Sender: verifAddr2, Receiver: sdk.AccAddress(make([]byte, 20)).String()})
	}
	before := e.ms.Snapshot()
	m := NewExecuteClaimMethod(e.k)
	input, err := m.PackInput(crosschaintypes.ExecuteClaimArgs{Chain: verifChain, EventNonce: big.NewInt(1)})
	if err != nil {
		rt.Assert(false, "harness: cannot pack input")
	}
	caller := common.HexToAddress("0x00000000000000000000000000000000000000aa")
	_, err = m.Run(e.evm, verifPcFrame(caller, input))
	_, stillParked := e.ck.GetPendingExecuteClaim(e.ctx, 1)
	if err != nil {
		rt.Cover("failed")
		rt.Assert(e.ms.Equal(before), "a failed precompile call leaves the native state exactly as it was")
		rt.Assert(stillParked == (kind == 1), "a claim whose execution failed stays parked")
		rt.Assert(len(e.sdb.Logs) == 0, "a failed call leaves no log")
		return
	}
	rt.Cover("executed")
	rt.Assert(kind == 0, "only a parked claim that executes cleanly makes the call succeed")
	rt.Assert(!stillParked, "an executed claim is consumed")
	rt.Assert(!e.ck.HasOutgoingBridgeCall(e.ctx, 5), "the claim's effect is applied")
	rt.Assert(len(e.sdb.Logs) == 1, "exactly one log")
	// running it again must fail and change nothing
	after := e.ms.Snapshot()
	_, err = m.Run(e.evm, verifPcFrame(caller, input))
	rt.Assert(err != nil, "a parked claim runs its effects at most once")
	rt.Assert(e.ms.Equal(after), "the refused second execution changes nothing")
}
