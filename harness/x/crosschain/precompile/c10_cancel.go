package precompile

import (
	"math/big"

	sdkmath "cosmossdk.io/math"
	sdk "github.com/cosmos/cosmos-sdk/types"
	banktypes "github.com/cosmos/cosmos-sdk/x/bank/types"
	"github.com/ethereum/go-ethereum/common"

	crosschaintypes "github.com/functionx/fx-core/v8/x/crosschain/types"
	erc20keeper "github.com/functionx/fx-core/v8/x/erc20/keeper"
	erc20types "github.com/functionx/fx-core/v8/x/erc20/types"
	"github.com/functionx/fx-core/v8/zzverif/models"
	"github.com/functionx/fx-core/v8/zzverif/rt"
)

const verifBase = "usdt"

var verifErc20Token = common.HexToAddress("0x00000000000000000000000000000000000000c1")

// verifPcBridgeToken registers bridged token 0x..01 of chain "eth" as module-owned "usdt".
func (e *verifPcEnv) verifPcBridgeToken(ek erc20keeper.Keeper) string {
	if err := e.ck.AddBridgeTokenExecuted(e.ctx, &crosschaintypes.MsgBridgeTokenClaim{TokenContract: verifAddr1, Name: "Tether", Symbol: "USDT", Decimals: 6, ChainName: verifChain}); err != nil {
		panic(err)
	}
	bridgeDenom := crosschaintypes.NewBridgeDenom(verifChain, verifAddr1)
	e.bank.SetDenomMetaData(e.ctx, banktypes.Metadata{Base: verifBase, Display: verifBase, Name: "Tether", Symbol: "USDT",
		DenomUnits: []*banktypes.DenomUnit{{Denom: verifBase, Exponent: 0, Aliases: []string{bridgeDenom}}}})
	ek.SetAliasesDenom(e.ctx, verifBase, bridgeDenom)
	ek.AddTokenPair(e.ctx, erc20types.TokenPair{Erc20Address: verifErc20Token.Hex(), Denom: verifBase, Enabled: true, ContractOwner: erc20types.OWNER_MODULE})
	e.evmk.Contracts = append(e.evmk.Contracts, verifErc20Token)
	p := erc20types.DefaultParams()
	if err := ek.SetParams(e.ctx, &p); err != nil {
		panic(err)
	}
	return bridgeDenom
}

// VerifC10CancelThroughPrecompile: cancelSendToExternal called by a contract / account for a
// queued withdrawal that belongs to the caller or to somebody else. C10: a withdrawal queued by
// another account is never cancelled or redirected - the call fails; C09: a failed call leaves
// the native state exactly as it was and no log; a successful one refunds exactly amount + fee to
// the caller (who is the creator), removes the entry and leaves exactly one log; repeating it fails.
func VerifC10CancelThroughPrecompile() {
	e := verifNewPcEnv()
	bridgeDenom := e.verifPcBridgeToken(e.k.erc20Keeper.(erc20keeper.Keeper))
	caller := common.HexToAddress("0x00000000000000000000000000000000000000aa")
	other := common.HexToAddress("0x00000000000000000000000000000000000000bb")
	owner := caller
	if rt.Bool("queuedBySomebodyElse") {
		owner = other
	}
	amt := rt.BigInt("amount")
	rt.Assume(rt.And(amt.Sign() > 0, amt.BitLen() <= 64))
	amount := sdkmath.NewIntFromBigInt(amt)
	fee := sdkmath.NewInt([]int64{0, 1, 5}[rt.Choose("fee", 3)])
	e.bank.SetBalance(owner.Bytes(), verifBase, amount.Add(fee))
	e.bank.SetBalance(models.ModuleAddress(verifChain), bridgeDenom, amount.Add(fee)) // escrow == base supply
	id, err := e.ck.AddToOutgoingPool(e.ctx, owner.Bytes(), verifAddr2, sdk.NewCoin(verifBase, amount), sdk.NewCoin(verifBase, fee))
	if err != nil {
		rt.Assert(false, "harness: cannot queue the withdrawal")
		return
	}
	txID := new(big.Int).SetUint64(id)
	if rt.Bool("unknownId") {
		txID = big.NewInt(77)
	}
	rt.Cover("state-built")
	before := e.ms.Snapshot()
	m := NewCancelSendToExternalMethod(e.k)
	input, err := m.PackInput(verifChain, txID)
	if err != nil {
		rt.Assert(false, "harness: cannot pack input")
		return
	}
	_, err = m.Run(e.evm, verifPcFrame(caller, input))
	_, gerr := e.ck.GetUnbatchedTxById(e.ctx, id)
	if err != nil {
		rt.Cover("refused")
		rt.Assert(e.ms.Equal(before), "a failed precompile call leaves the native state exactly as it was")
		rt.Assert(gerr == nil, "a withdrawal queued by another account is not cancelled")
		rt.Assert(len(e.sdb.Logs) == 0, "a failed call leaves no log")
		return
	}
	rt.Cover("cancelled")
	rt.Assert(owner == caller && txID.Uint64() == id, "only the account that queued a withdrawal can cancel it")
	rt.Assert(gerr != nil, "the cancelled withdrawal left the pool")
	rt.Assert(e.bank.Balance(caller.Bytes(), verifBase).Equal(amount.Add(fee)), "the refund is exactly amount + fee, to the caller")
	rt.Assert(e.bank.Balance(other.Bytes(), verifBase).IsZero(), "nobody else is paid")
	rt.Assert(len(e.sdb.Logs) == 1, "exactly one log")
	after := e.ms.Snapshot()
	_, err = m.Run(e.evm, verifPcFrame(caller, input))
	rt.Assert(err != nil && e.ms.Equal(after), "a withdrawal is refunded at most once")
}
