package types

import (
	"encoding/hex"

	sdk "github.com/cosmos/cosmos-sdk/types"

	fxtypes "github.com/functionx/fx-core/v8/types"
	"github.com/functionx/fx-core/v8/zzverif/models"
	"github.com/functionx/fx-core/v8/zzverif/rt"
)

// VerifC20ValidateMigrateMsg: MsgMigrateAccount.ValidateBasic never panics on ill-formed
// addresses or on signatures of any length 0..66 bytes with arbitrary content.
func VerifC20ValidateMigrateMsg() {
	if sdk.GetConfig().GetBech32AccountAddrPrefix() != fxtypes.AddressPrefix {
		fxtypes.SetConfig(false)
	}
	h := &models.Hostile{Budget: rt.Bound("illFormedFieldsAtOnce", 2, 3)}
	var sig string
	switch rt.Choose("signature", 5) {
	case 0:
		sig = ""
	case 1:
		sig = h.Junk("signature", 3) // not hex
	case 2:
		sig = hex.EncodeToString(rt.Bytes("signature", 64))
	case 3:
		sig = hex.EncodeToString(rt.Bytes("signature", 65))
	default:
		sig = hex.EncodeToString(rt.Bytes("signature", 66))
	}
	m := &MsgMigrateAccount{From: h.Acc("from"), To: h.Ext("to"), Signature: sig}
	if m.ValidateBasic() == nil {
		rt.Cover("valid")
	} else {
		rt.Cover("rejected")
	}
}
