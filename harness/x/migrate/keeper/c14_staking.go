package keeper

import (
	"context"
	"time"

	addresscodec "cosmossdk.io/core/address"
	sdkmath "cosmossdk.io/math"
	storetypes "cosmossdk.io/store/types"
	"github.com/cosmos/cosmos-sdk/codec"
	sdk "github.com/cosmos/cosmos-sdk/types"
	distrtypes "github.com/cosmos/cosmos-sdk/x/distribution/types"
	stakingtypes "github.com/cosmos/cosmos-sdk/x/staking/types"
	"github.com/ethereum/go-ethereum/common"

	fxtypes "github.com/functionx/fx-core/v8/types"
	"github.com/functionx/fx-core/v8/zzverif/models"
	"github.com/functionx/fx-core/v8/zzverif/rt"
)

// verifStaking is the read side of the staking keeper over the model staking store, with the
// real key builders: the maturation queues are the DVPairs / DVVTriplets stored per completion time.
type verifStaking struct {
	store *models.KVStore
	cdc   codec.BinaryCodec
}

func (s verifStaking) GetValidator(ctx context.Context, addr sdk.ValAddress) (stakingtypes.Validator, error) {
	return stakingtypes.Validator{}, stakingtypes.ErrNoValidatorFound
}

func (s verifStaking) GetDelegatorDelegations(ctx context.Context, d sdk.AccAddress, n uint16) ([]stakingtypes.Delegation, error) {
	return nil, nil
}

func (s verifStaking) GetUnbondingDelegations(ctx context.Context, d sdk.AccAddress, n uint16) ([]stakingtypes.UnbondingDelegation, error) {
	return nil, nil
}

func (s verifStaking) GetRedelegations(ctx context.Context, d sdk.AccAddress, n uint16) ([]stakingtypes.Redelegation, error) {
	return nil, nil
}

func (s verifStaking) GetUBDQueueTimeSlice(ctx context.Context, t time.Time) ([]stakingtypes.DVPair, error) {
	bz := s.store.Get(stakingtypes.GetUnbondingDelegationTimeKey(t))
	if bz == nil {
		return []stakingtypes.DVPair{}, nil
	}
	pairs := stakingtypes.DVPairs{}
	err := s.cdc.Unmarshal(bz, &pairs)
	return pairs.Pairs, err
}

func (s verifStaking) GetRedelegationQueueTimeSlice(ctx context.Context, t time.Time) ([]stakingtypes.DVVTriplet, error) {
	bz := s.store.Get(stakingtypes.GetRedelegationTimeKey(t))
	if bz == nil {
		return []stakingtypes.DVVTriplet{}, nil
	}
	triplets := stakingtypes.DVVTriplets{}
	err := s.cdc.Unmarshal(bz, &triplets)
	return triplets.Triplets, err
}

type verifValCodec struct{}

func (verifValCodec) StringToBytes(s string) ([]byte, error) { return sdk.ValAddressFromBech32(s) }
func (verifValCodec) BytesToString(b []byte) (string, error) { return sdk.ValAddress(b).String(), nil }

func (s verifStaking) ValidatorAddressCodec() addresscodec.Codec { return verifValCodec{} }

func verifCountPrefix(st *models.KVStore, prefix []byte) int {
	n := 0
	it := storetypes.KVStorePrefixIterator(st, prefix)
	for ; it.Valid(); it.Next() {
		n++
	}
	it.Close()
	return n
}

// VerifC14StakingMigrate: the key-by-key rewrite of a delegator's staking records. The source
// has a delegation (with its reward starting info), an unbonding delegation with one or two
// entries and a redelegation, each completing before, exactly at or after the current block time
// (so possibly already mature but not yet dequeued by the end-blocker), sharing their maturation
// queue slots with another delegator. After Execute nothing is left under the source's keys, the
// target owns equal records and indexes, every maturation-queue slot names the target exactly
// where it named the source (so the end-blocker finds the records it dequeues), and the other
// delegator's records and queue entries are untouched.
func VerifC14StakingMigrate() {
	if sdk.GetConfig().GetBech32AccountAddrPrefix() != fxtypes.AddressPrefix {
		fxtypes.SetConfig(false)
	}
	ms := models.NewMultiStore("staking", "distribution")
	now := time.Unix(1_700_000_000, 0).UTC()
	ctx := models.NewContext(ms, 100, 1_700_000_000)
	cdc := models.NewCodec(nil)
	st, ds := ms.Store("staking"), ms.Store("distribution")
	m := &DistrStakingMigrate{distrKey: models.NewStoreKey("distribution"), stakingKey: models.NewStoreKey("staking"), stakingKeeper: verifStaking{store: st, cdc: cdc}}
	from := sdk.AccAddress([]byte{0xa1, 1, 1, 1, 1, 1, 1, 1, 1, 1, 1, 1, 1, 1, 1, 1, 1, 1, 1, 1})
	other := sdk.AccAddress([]byte{0xc3, 3, 3, 3, 3, 3, 3, 3, 3, 3, 3, 3, 3, 3, 3, 3, 3, 3, 3, 3})
	to := common.HexToAddress("0x00000000000000000000000000000000000000b2")
	toAcc := sdk.AccAddress(to.Bytes())
	v1 := sdk.ValAddress([]byte{0x71, 1, 1, 1, 1, 1, 1, 1, 1, 1, 1, 1, 1, 1, 1, 1, 1, 1, 1, 1})
	v2 := sdk.ValAddress([]byte{0x72, 2, 2, 2, 2, 2, 2, 2, 2, 2, 2, 2, 2, 2, 2, 2, 2, 2, 2, 2})
	times := []time.Time{now.Add(-10 * time.Second), now, now.Add(100 * time.Second)}
	amt := func(name string) sdkmath.Int {
		b := rt.BigInt(name)
		rt.Assume(rt.And(b.Sign() > 0, b.BitLen() <= 64))
		return sdkmath.NewIntFromBigInt(b)
	}

	// delegation + reward starting info
	hasDel := rt.Bool("hasDelegation")
	startInfo := []byte{0x0a, 0x01, 0x05}
	if hasDel {
		st.Set(stakingtypes.GetDelegationKey(from, v1), stakingtypes.MustMarshalDelegation(cdc, stakingtypes.Delegation{DelegatorAddress: from.String(), ValidatorAddress: v1.String(), Shares: sdkmath.LegacyNewDec(7)}))
		ds.Set(distrtypes.GetDelegatorStartingInfoKey(v1, from), startInfo)
	}
	// unbonding delegation with 1..2 entries
	nEntries := 1 + rt.Choose("unbondingEntries", 2)
	var ubdTimes []time.Time
	ubd := stakingtypes.UnbondingDelegation{DelegatorAddress: from.String(), ValidatorAddress: v1.String()}
	var ubdBalances []sdkmath.Int
	for i := 0; i < nEntries; i++ {
		t := times[rt.Choose([]string{"unbonding1.completes", "unbonding2.completes"}[i], 3)]
		bal := amt([]string{"unbonding1.balance", "unbonding2.balance"}[i])
		ubd.Entries = append(ubd.Entries, stakingtypes.UnbondingDelegationEntry{CreationHeight: int64(50 + i), CompletionTime: t, InitialBalance: bal, Balance: bal, UnbondingId: uint64(i + 1)})
		ubdTimes = append(ubdTimes, t)
		ubdBalances = append(ubdBalances, bal)
	}
	st.Set(stakingtypes.GetUBDKey(from, v1), stakingtypes.MustMarshalUBD(cdc, ubd))
	st.Set(stakingtypes.GetUBDByValIndexKey(from, v1), []byte{})
	// the other delegator unbonds from the same validator and matures in the same slots
	otherUbd := stakingtypes.UnbondingDelegation{DelegatorAddress: other.String(), ValidatorAddress: v1.String(),
		Entries: []stakingtypes.UnbondingDelegationEntry{{CreationHeight: 40, CompletionTime: times[1], InitialBalance: sdkmath.NewInt(5), Balance: sdkmath.NewInt(5), UnbondingId: 9}}}
	st.Set(stakingtypes.GetUBDKey(other, v1), stakingtypes.MustMarshalUBD(cdc, otherUbd))
	st.Set(stakingtypes.GetUBDByValIndexKey(other, v1), []byte{})
	for _, t := range times {
		var pairs []stakingtypes.DVPair
		pairs = append(pairs, stakingtypes.DVPair{DelegatorAddress: other.String(), ValidatorAddress: v1.String()})
		for _, ut := range ubdTimes {
			if ut.Equal(t) {
				pairs = append(pairs, stakingtypes.DVPair{DelegatorAddress: from.String(), ValidatorAddress: v1.String()})
			}
		}
		st.Set(stakingtypes.GetUnbondingDelegationTimeKey(t), cdc.MustMarshal(&stakingtypes.DVPairs{Pairs: pairs}))
	}
	// redelegation v1 -> v2
	redT := times[rt.Choose("redelegation.completes", 3)]
	redBal := amt("redelegation.balance")
	red := stakingtypes.Redelegation{DelegatorAddress: from.String(), ValidatorSrcAddress: v1.String(), ValidatorDstAddress: v2.String(),
		Entries: []stakingtypes.RedelegationEntry{{CreationHeight: 60, CompletionTime: redT, InitialBalance: redBal, SharesDst: sdkmath.LegacyNewDec(3), UnbondingId: 5}}}
	st.Set(stakingtypes.GetREDKey(from, v1, v2), stakingtypes.MustMarshalRED(cdc, red))
	st.Set(stakingtypes.GetREDByValSrcIndexKey(from, v1, v2), []byte{})
	st.Set(stakingtypes.GetREDByValDstIndexKey(from, v1, v2), []byte{})
	st.Set(stakingtypes.GetRedelegationTimeKey(redT), cdc.MustMarshal(&stakingtypes.DVVTriplets{Triplets: []stakingtypes.DVVTriplet{
		{DelegatorAddress: other.String(), ValidatorSrcAddress: v1.String(), ValidatorDstAddress: v2.String()},
		{DelegatorAddress: from.String(), ValidatorSrcAddress: v1.String(), ValidatorDstAddress: v2.String()}}}))
	rt.Cover("state-built")

	if err := m.Execute(ctx, cdc, from, to); err != nil {
		return // a refused migration moves nothing (judged by the flow harness)
	}
	rt.Cover("migrated")
	// the source is left with nothing
	rt.Assert(verifCountPrefix(st, stakingtypes.GetDelegationsKey(from)) == 0 && verifCountPrefix(st, stakingtypes.GetUBDsKey(from)) == 0 &&
		verifCountPrefix(st, stakingtypes.GetREDsKey(from)) == 0, "no delegation, unbonding or redelegation record is left under the source")
	rt.Assert(!st.Has(stakingtypes.GetUBDByValIndexKey(from, v1)) && !st.Has(stakingtypes.GetREDByValSrcIndexKey(from, v1, v2)) && !st.Has(stakingtypes.GetREDByValDstIndexKey(from, v1, v2)),
		"no by-validator index entry is left for the source")
	rt.Assert(!ds.Has(distrtypes.GetDelegatorStartingInfoKey(v1, from)), "no reward starting info is left for the source")
	// the target owns equal records
	if hasDel {
		bz := st.Get(stakingtypes.GetDelegationKey(toAcc, v1))
		rt.Assert(bz != nil, "the target owns the delegation")
		if bz != nil {
			d := stakingtypes.MustUnmarshalDelegation(cdc, bz)
			rt.Assert(d.DelegatorAddress == toAcc.String() && d.ValidatorAddress == v1.String() && d.Shares.Equal(sdkmath.LegacyNewDec(7)), "the delegation is unchanged apart from its owner")
		}
		rt.Assert(rt.BytesEq(ds.Get(distrtypes.GetDelegatorStartingInfoKey(v1, toAcc)), startInfo), "the reward entitlement (starting info) moved to the target")
	}
	bz := st.Get(stakingtypes.GetUBDKey(toAcc, v1))
	rt.Assert(bz != nil && st.Has(stakingtypes.GetUBDByValIndexKey(toAcc, v1)), "the target owns the unbonding delegation and its index entry")
	if bz != nil {
		u := stakingtypes.MustUnmarshalUBD(cdc, bz)
		rt.Assert(u.DelegatorAddress == toAcc.String() && u.ValidatorAddress == v1.String() && len(u.Entries) == nEntries, "the unbonding delegation is unchanged apart from its owner")
		if len(u.Entries) == nEntries {
			for i := range u.Entries {
				rt.Assert(rt.And(u.Entries[i].Balance.Equal(ubdBalances[i]), u.Entries[i].InitialBalance.Equal(ubdBalances[i]), u.Entries[i].CompletionTime.Equal(ubdTimes[i]),
					u.Entries[i].CreationHeight == int64(50+i), u.Entries[i].UnbondingId == uint64(i+1)), "every unbonding entry is carried over unchanged")
			}
		}
	}
	bz = st.Get(stakingtypes.GetREDKey(toAcc, v1, v2))
	rt.Assert(bz != nil && st.Has(stakingtypes.GetREDByValSrcIndexKey(toAcc, v1, v2)) && st.Has(stakingtypes.GetREDByValDstIndexKey(toAcc, v1, v2)), "the target owns the redelegation and both index entries")
	if bz != nil {
		r := stakingtypes.MustUnmarshalRED(cdc, bz)
		rt.Assert(r.DelegatorAddress == toAcc.String() && len(r.Entries) == 1 && r.Entries[0].InitialBalance.Equal(redBal) && r.Entries[0].CompletionTime.Equal(redT), "the redelegation is unchanged apart from its owner")
	}
	// maturation queues: the target stands exactly where the source stood
	sk := verifStaking{store: st, cdc: cdc}
	for _, t := range times {
		want := 0
		for _, ut := range ubdTimes {
			if ut.Equal(t) {
				want++
			}
		}
		pairs, _ := sk.GetUBDQueueTimeSlice(ctx, t)
		gotTo, gotFrom, gotOther := 0, 0, 0
		for _, p := range pairs {
			switch p.DelegatorAddress {
			case toAcc.String():
				gotTo++
			case from.String():
				gotFrom++
			case other.String():
				gotOther++
			}
		}
		rt.Assert(gotFrom == 0 && gotTo == want, "every unbonding queue slot names the target exactly where it named the source (matured-but-not-dequeued entries included)")
		rt.Assert(gotOther == 1 && len(pairs) == want+1, "queue entries of other delegators are untouched")
	}
	triplets, _ := sk.GetRedelegationQueueTimeSlice(ctx, redT)
	rt.Assert(len(triplets) == 2 && triplets[0].DelegatorAddress == other.String() && triplets[1].DelegatorAddress == toAcc.String() &&
		triplets[1].ValidatorSrcAddress == v1.String() && triplets[1].ValidatorDstAddress == v2.String(), "the redelegation queue slot names the target where it named the source")
	// the other delegator is untouched
	ob := st.Get(stakingtypes.GetUBDKey(other, v1))
	rt.Assert(ob != nil && st.Has(stakingtypes.GetUBDByValIndexKey(other, v1)), "another delegator keeps its records")
	if ob != nil {
		o := stakingtypes.MustUnmarshalUBD(cdc, ob)
		rt.Assert(o.DelegatorAddress == other.String() && len(o.Entries) == 1 && o.Entries[0].Balance.Equal(sdkmath.NewInt(5)), "another delegator's record is unchanged")
	}
}
