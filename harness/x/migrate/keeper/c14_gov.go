package keeper

import (
	"context"
	"math/big"
	"time"

	addresscodec "cosmossdk.io/core/address"
	sdkmath "cosmossdk.io/math"
	"github.com/cosmos/cosmos-sdk/codec"
	cryptotypes "github.com/cosmos/cosmos-sdk/crypto/types"
	sdk "github.com/cosmos/cosmos-sdk/types"
	govtypes "github.com/cosmos/cosmos-sdk/x/gov/types"
	govv1 "github.com/cosmos/cosmos-sdk/x/gov/types/v1"
	"github.com/ethereum/go-ethereum/common"

	fxtypes "github.com/functionx/fx-core/v8/types"
	migratetypes "github.com/functionx/fx-core/v8/x/migrate/types"
	"github.com/functionx/fx-core/v8/zzverif/models"
	"github.com/functionx/fx-core/v8/zzverif/rt"
)

// verifGov models the governance keeper as seen by the migration module. The two iterators follow
// the contract of the collections range they are built on (NewPrefixUntilPairRange(t) over the
// queues keyed by end time): they visit exactly the queued proposals whose period end is <= t.
type verifProposal struct {
	p          govv1.Proposal
	voting     bool // in the voting period (active queue) rather than the deposit period (inactive queue)
	end        time.Time
	depositors [][]byte
	voters     [][]byte
}

type verifGov struct{ props []verifProposal }

func (g *verifGov) walk(voting bool, t time.Time, fn func(govv1.Proposal) (bool, error)) error {
	for _, vp := range g.props {
		if vp.voting != voting || vp.end.After(t) {
			continue
		}
		stop, err := fn(vp.p)
		if err != nil {
			return err
		}
		if stop {
			return nil
		}
	}
	return nil
}

func (g *verifGov) IteratorInactiveProposal(ctx sdk.Context, t time.Time, fn func(govv1.Proposal) (bool, error)) error {
	return g.walk(false, t, fn)
}

func (g *verifGov) IteratorActiveProposal(ctx sdk.Context, t time.Time, fn func(govv1.Proposal) (bool, error)) error {
	return g.walk(true, t, fn)
}

func verifIn(list [][]byte, a []byte) bool {
	for _, x := range list {
		if string(x) == string(a) {
			return true
		}
	}
	return false
}

func (g *verifGov) HasDeposit(ctx sdk.Context, id uint64, d sdk.AccAddress) (bool, error) {
	for _, vp := range g.props {
		if vp.p.Id == id {
			return verifIn(vp.depositors, d), nil
		}
	}
	return false, nil
}

func (g *verifGov) HasVote(ctx sdk.Context, id uint64, v sdk.AccAddress) (bool, error) {
	for _, vp := range g.props {
		if vp.p.Id == id {
			return verifIn(vp.voters, v), nil
		}
	}
	return false, nil
}

type verifAddrCodec struct{}

func (verifAddrCodec) StringToBytes(s string) ([]byte, error) { return sdk.AccAddressFromBech32(s) }
func (verifAddrCodec) BytesToString(b []byte) (string, error) { return sdk.AccAddress(b).String(), nil }

type verifAccounts struct{ govtypes.AccountKeeper }

func (verifAccounts) AddressCodec() addresscodec.Codec                              { return verifAddrCodec{} }
func (verifAccounts) GetAccount(ctx context.Context, a sdk.AccAddress) sdk.AccountI { return nil }

// VerifC14GovParticipation: account migration is refused while the source or the target is
// proposer, depositor or voter of a proposal that is still open (deposit or voting period, with
// any end time relative to the current block time).
func VerifC14GovParticipation() {
	if sdk.GetConfig().GetBech32AccountAddrPrefix() != fxtypes.AddressPrefix {
		fxtypes.SetConfig(false)
	}
	ms := models.NewMultiStore("migrate")
	now := int64(1_700_000_000)
	ctx := models.NewContext(ms, 100, now)
	from := sdk.AccAddress([]byte{0xa1, 1, 1, 1, 1, 1, 1, 1, 1, 1, 1, 1, 1, 1, 1, 1, 1, 1, 1, 1})
	to := common.HexToAddress("0x00000000000000000000000000000000000000b2")
	other := sdk.AccAddress([]byte{0xc3, 3, 3, 3, 3, 3, 3, 3, 3, 3, 3, 3, 3, 3, 3, 3, 3, 3, 3, 3})
	party := from.Bytes()
	if rt.Bool("targetIsInvolved") {
		party = to.Bytes()
	}
	voting := rt.Bool("votingPeriod")
	// the period end: any time from a week ago to two months ahead (open proposals end in the future,
	// a proposal whose end passed is processed by the end-blocker of this very block)
	endOffset := rt.I64("periodEndMinusNow")
	rt.Assume(rt.And(endOffset >= -7*86400, endOffset <= 60*86400))
	role := rt.Choose("role", 4) // 0 proposer, 1 depositor, 2 voter (voting period only), 3 not involved
	vp := verifProposal{voting: voting, end: time.Unix(now+endOffset, 0), p: govv1.Proposal{Id: 7, Proposer: other.String()}}
	involved := false
	switch role {
	case 0:
		vp.p.Proposer = sdk.AccAddress(party).String()
		involved = true
	case 1:
		vp.depositors = append(vp.depositors, party)
		involved = true
	case 2:
		if voting {
			vp.voters = append(vp.voters, party)
			involved = true
		}
	}
	vp.depositors = append(vp.depositors, other)
	m := &GovMigrate{govKeeper: &verifGov{props: []verifProposal{vp}}, accountKeeper: verifAccounts{}}
	rt.Cover("state-built")
	err := m.Validate(ctx, nil, from, to)
	if involved {
		rt.Cover("involved")
		rt.Known("C14-gov-scan-skips-open-proposals", endOffset > 0)
		rt.Assert(err != nil, "migration refused while source or target takes part in a proposal that is still queued")
	} else {
		rt.Cover("not-involved")
		rt.Assert(err == nil, "an account that takes no part in any proposal is not blocked by governance")
	}
}

// ---- MigrateAccount control flow

type verifHandler struct {
	name         string
	failValidate bool
	failExecute  bool
	log          *[]string
}

type verifHErr string

func (e verifHErr) Error() string { return string(e) }

func (h verifHandler) Validate(ctx sdk.Context, _ codec.BinaryCodec, _ sdk.AccAddress, _ common.Address) error {
	*h.log = append(*h.log, "validate:"+h.name)
	if h.failValidate {
		return verifHErr("validate failed")
	}
	return nil
}

func (h verifHandler) Execute(ctx sdk.Context, _ codec.BinaryCodec, _ sdk.AccAddress, _ common.Address) error {
	*h.log = append(*h.log, "execute:"+h.name)
	if h.failExecute {
		return verifHErr("execute failed")
	}
	return nil
}

type verifPubKey struct{ cryptotypes.PubKey }

func (verifPubKey) Type() string { return "secp256k1" }

type verifAccount struct{ sdk.AccountI }

func (verifAccount) GetPubKey() cryptotypes.PubKey { return verifPubKey{} }

type verifMigrateAccounts struct{ migratetypes.AccountKeeper }

func (verifMigrateAccounts) GetAccount(ctx context.Context, a sdk.AccAddress) sdk.AccountI {
	return verifAccount{}
}

// VerifC14MigrateFlow: MigrateAccount refuses an address already used in a migration (as source
// or as target), runs every handler's validation before any handler's execution, writes the
// migration record only after every execution succeeded, moves all bank balances of the source to
// the target, and cannot be repeated.
func VerifC14MigrateFlow() {
	if sdk.GetConfig().GetBech32AccountAddrPrefix() != fxtypes.AddressPrefix {
		fxtypes.SetConfig(false)
	}
	ms := models.NewMultiStore("migrate")
	ctx := models.NewContext(ms, 100, 1_700_000_000)
	bank := models.NewBank(ms)
	from := sdk.AccAddress([]byte{0xa1, 1, 1, 1, 1, 1, 1, 1, 1, 1, 1, 1, 1, 1, 1, 1, 1, 1, 1, 1})
	to := common.HexToAddress("0x00000000000000000000000000000000000000b2")
	var log []string
	h1 := verifHandler{name: "h1", failValidate: rt.Bool("h1.validateFails"), failExecute: rt.Bool("h1.executeFails"), log: &log}
	h2 := verifHandler{name: "h2", failValidate: rt.Bool("h2.validateFails"), failExecute: rt.Bool("h2.executeFails"), log: &log}
	k := Keeper{cdc: models.NewCodec(nil), storeKey: models.NewStoreKey("migrate"), accountKeeper: verifMigrateAccounts{},
		migrateI: []MigrateI{h1, NewBankMigrate(bank), h2}}
	a1, a2 := rt.BigInt("balance.FX"), rt.BigInt("balance.usdt")
	lim := new(big.Int).Lsh(big.NewInt(1), 100)
	rt.Assume(rt.And(a1.Sign() >= 0, a1.Cmp(lim) < 0, a2.Sign() >= 0, a2.Cmp(lim) < 0))
	b1, b2 := sdkmath.NewIntFromBigInt(a1), sdkmath.NewIntFromBigInt(a2)
	bank.SetBalance(from, "FX", b1)
	bank.SetBalance(from, "usdt", b2)
	used := rt.Choose("alreadyMigrated", 3) // 0 nobody, 1 the source, 2 the target
	if used == 1 {
		k.SetMigrateRecord(ctx, from, common.HexToAddress("0x00000000000000000000000000000000000000dd"))
	} else if used == 2 {
		k.SetMigrateRecord(ctx, sdk.AccAddress([]byte{0xee, 1, 1, 1, 1, 1, 1, 1, 1, 1, 1, 1, 1, 1, 1, 1, 1, 1, 1, 1}), to)
	}
	rt.Cover("state-built")
	_, err := k.MigrateAccount(ctx, &migratetypes.MsgMigrateAccount{From: from.String(), To: to.Hex(), Signature: "00"})
	executed := 0
	validatedAfterExecute := false
	for _, l := range log {
		if len(l) > 8 && l[:8] == "execute:" {
			executed++
		} else if executed > 0 {
			validatedAfterExecute = true
		}
	}
	rt.Assert(!validatedAfterExecute, "every handler validates before any handler executes")
	if err != nil {
		rt.Cover("refused")
		if used != 0 {
			rt.Assert(len(log) == 0, "an address already used in a migration is refused before any handler runs")
		}
		if h1.failValidate || h2.failValidate {
			rt.Assert(executed == 0, "nothing is executed when a validation fails")
		}
		if used == 0 {
			rt.Assert(!k.HasMigrateRecord(ctx, from) && !k.HasMigrateRecord(ctx, to.Bytes()), "no migration record is written for a refused migration")
		}
		return
	}
	rt.Cover("migrated")
	rt.Assert(used == 0 && !h1.failValidate && !h2.failValidate && !h1.failExecute && !h2.failExecute, "migration succeeds only if nothing was used before and every handler agreed")
	rt.Assert(k.HasMigrateRecord(ctx, from) && k.HasMigrateRecord(ctx, to.Bytes()), "record written for source and target")
	rt.Assert(bank.Balance(from, "FX").IsZero() && bank.Balance(from, "usdt").IsZero(), "the source is left with nothing")
	rt.Assert(bank.Balance(to.Bytes(), "FX").Equal(b1) && bank.Balance(to.Bytes(), "usdt").Equal(b2), "the target holds exactly what the source held")
	_, err = k.MigrateAccount(ctx, &migratetypes.MsgMigrateAccount{From: from.String(), To: to.Hex(), Signature: "00"})
	rt.Assert(err != nil, "a migration cannot be repeated")
}
