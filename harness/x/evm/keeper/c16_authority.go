package keeper

import (
	"context"

	sdk "github.com/cosmos/cosmos-sdk/types"
	paramstypes "github.com/cosmos/cosmos-sdk/x/params/types"
	"github.com/ethereum/go-ethereum/common"
	evmkeeper "github.com/evmos/ethermint/x/evm/keeper"
	evmtypes "github.com/evmos/ethermint/x/evm/types"

	fxtypes "github.com/functionx/fx-core/v8/types"
	fxevmtypes "github.com/functionx/fx-core/v8/x/evm/types"
	"github.com/functionx/fx-core/v8/zzverif/models"
	"github.com/functionx/fx-core/v8/zzverif/rt"
)

// verifEvmAccounts: the account keeper as seen by the (ethermint) evm keeper: module addresses
// only, no accounts (so every contract lookup finds nothing).
type verifEvmAccounts struct{ evmtypes.AccountKeeper }

func (verifEvmAccounts) GetModuleAddress(name string) sdk.AccAddress {
	return models.ModuleAddress(name)
}
func (verifEvmAccounts) GetAccount(ctx context.Context, a sdk.AccAddress) sdk.AccountI { return nil }

// VerifC16CallContract: MsgCallContract (governance calling a contract as the evm module) is
// rejected for every authority other than the keeper's own and then touches no store; with the
// governance authority the request gets past the guard (and, there being no such contract in the
// model, is refused for that reason).
func VerifC16CallContract() {
	if sdk.GetConfig().GetBech32AccountAddrPrefix() != fxtypes.AddressPrefix {
		fxtypes.SetConfig(false)
	}
	ms := models.NewMultiStore(evmtypes.StoreKey)
	ctx := models.NewContext(ms, 10, 1700000000)
	gov := models.ModuleAddress("gov")
	ek := evmkeeper.NewKeeper(nil, models.NewStoreKey(evmtypes.StoreKey), models.NewStoreKey("object"), gov, verifEvmAccounts{}, nil, nil, nil, "", paramstypes.Subspace{}, nil)
	k := &Keeper{Keeper: ek, module: common.BytesToAddress(models.ModuleAddress(evmtypes.ModuleName))}
	auth := sdk.AccAddress(rt.Bytes("authority", 20))
	isGov := rt.BytesEq(auth, gov)
	before := ms.TotalWrites()
	_, err := k.CallContract(ctx, &fxevmtypes.MsgCallContract{Authority: auth.String(), ContractAddress: "0x00000000000000000000000000000000000000c1", Data: "aabb"})
	rt.Cover("called")
	rt.Assert(err != nil, "without a contract the call cannot succeed")
	rt.Assert(ms.TotalWrites() == before, "a refused contract call writes nothing")
	if err != nil {
		invalidSigner := err.Error() != "" && rt.StrEq(firstWords(err.Error()), "invalid authority")
		rt.Assert(invalidSigner == rt.Not(isGov), "the request is refused for its authority exactly when the authority is not the governance account")
		if !invalidSigner {
			rt.Cover("passed-the-guard")
		}
	}
}

func firstWords(s string) string {
	if len(s) < len("invalid authority") {
		return s
	}
	return s[:len("invalid authority")]
}
