// Package rt is the harness runtime of the gosymx checker.
//
// Inside the symbolic engine every function below is intercepted (the bodies never run) and
// yields fresh SMT constants, assumptions and proof obligations. Compiled natively (replay of
// a counterexample against the real code) the functions read the solver's model from the JSON
// file named by $VERIF_REPLAY.
package rt

import (
	"encoding/json"
	"fmt"
	"math/big"
	"os"
	"strconv"
	"strings"
)

type replayFile struct {
	Harness string            `json:"harness"`
	Label   string            `json:"label"`
	Kind    string            `json:"kind"`
	Model   map[string]string `json:"model"`
}

var (
	replay   *replayFile
	used     = map[string]int{}
	Failures []string
	Covered  []string
	panicOK  bool
)

// AssumeFailed is the panic value raised natively when an assumption does not hold.
type AssumeFailed struct{}

func load() {
	if replay != nil {
		return
	}
	replay = &replayFile{Model: map[string]string{}}
	p := os.Getenv("VERIF_REPLAY")
	if p == "" {
		return
	}
	bz, err := os.ReadFile(p)
	if err != nil {
		panic(err)
	}
	if err := json.Unmarshal(bz, replay); err != nil {
		panic(err)
	}
}

func uniq(name string) string {
	name = sanitize(name)
	used[name]++
	if used[name] > 1 {
		return fmt.Sprintf("%s#%d", name, used[name])
	}
	return name
}

func sanitize(s string) string {
	return strings.Map(func(r rune) rune {
		if r == '|' || r == '\\' || r < 32 || r > 126 {
			return '_'
		}
		return r
	}, s)
}

// Reset clears per-run state (native only).
func Reset() {
	used = map[string]int{}
	Failures = nil
	Covered = nil
	panicOK = false
}

func lookup(name string) *big.Int {
	load()
	v, ok := replay.Model[uniq(name)]
	if !ok {
		return new(big.Int)
	}
	return parseSMT(v)
}

func parseSMT(v string) *big.Int {
	v = strings.TrimSpace(v)
	r := new(big.Int)
	switch {
	case v == "true":
		return big.NewInt(1)
	case v == "false":
		return big.NewInt(0)
	case strings.HasPrefix(v, "#x"):
		r.SetString(v[2:], 16)
	case strings.HasPrefix(v, "#b"):
		r.SetString(v[2:], 2)
	case strings.HasPrefix(v, "(-"):
		inner := strings.TrimSpace(strings.TrimSuffix(strings.TrimPrefix(v, "(-"), ")"))
		r.SetString(inner, 10)
		r.Neg(r)
	case strings.HasPrefix(v, "(_ bv"):
		f := strings.Fields(v)
		r.SetString(strings.TrimPrefix(f[1], "bv"), 10)
	default:
		if _, ok := r.SetString(v, 10); !ok {
			panic("rt: cannot parse model value " + strconv.Quote(v))
		}
	}
	return r
}

func U64(name string) uint64 { return lookup(name).Uint64() }
func I64(name string) int64  { return int64(lookup(name).Uint64()) }
func Int(name string) int    { return int(int64(lookup(name).Uint64())) }
func U32(name string) uint32 { return uint32(lookup(name).Uint64()) }
func I32(name string) int32  { return int32(uint32(lookup(name).Uint64())) }
func U8(name string) uint8   { return uint8(lookup(name).Uint64()) }
func Bool(name string) bool  { return lookup(name).Sign() != 0 }

func Bytes(name string, n int) []byte {
	out := make([]byte, n)
	for i := range out {
		out[i] = uint8(lookup(fmt.Sprintf("%s[%d]", name, i)).Uint64())
	}
	return out
}

func Str(name string, n int) string { return string(Bytes(name, n)) }

// BigInt returns an arbitrary mathematical integer.
func BigInt(name string) *big.Int { return lookup(name) }

// Choose returns an arbitrary value in [0,n).
func Choose(name string, n int) int {
	if n <= 1 {
		return 0
	}
	v := int(int64(lookup(name).Uint64()))
	if v < 0 || v >= n {
		panic(AssumeFailed{})
	}
	return v
}

func Assume(cond bool) {
	if !cond {
		panic(AssumeFailed{})
	}
}

func Assert(cond bool, label string) {
	if !cond {
		Failures = append(Failures, label)
	}
}

func Cover(label string) { Covered = append(Covered, label) }

// Known ties a recorded finding (known_findings.json) to the condition under which it shows.
func Known(id string, cond bool) {}

func PanicOK()    { panicOK = true }
func PanicNotOK() { panicOK = false }

// Symbolic reports whether the code runs inside the symbolic engine.
func Symbolic() bool { return false }

// Note records an assumption / stub description in the evidence.
func Note(s string) {}

// IsConcrete reports whether v has no symbolic content (always true natively).
func IsConcrete(v interface{}) bool { return true }

// RunNative executes a harness natively and reports what happened.
func RunNative(fn func()) (failures []string, panicked bool, panicMsg string, assumeFailed bool) {
	Reset()
	func() {
		defer func() {
			if r := recover(); r != nil {
				if _, ok := r.(AssumeFailed); ok {
					assumeFailed = true
					return
				}
				panicked = true
				panicMsg = fmt.Sprint(r)
			}
		}()
		fn()
	}()
	return Failures, panicked, panicMsg, assumeFailed
}

// ReplayMain is called by the generated replay test of a package.
func ReplayMain(harnesses map[string]func()) (ok bool, report string) {
	load()
	fn, have := harnesses[replay.Harness]
	if !have {
		return false, "NOHARNESS " + replay.Harness
	}
	fails, panicked, msg, af := RunNative(fn)
	if af {
		return false, "ASSUME-FAILED"
	}
	if replay.Kind == "panic" {
		if panicked {
			return true, "REPRODUCED panic: " + msg
		}
		return false, "NOT-REPRODUCED (no panic)"
	}
	for _, f := range fails {
		if f == replay.Label {
			return true, "REPRODUCED assert: " + f
		}
	}
	if panicked {
		return false, "NOT-REPRODUCED (panic instead: " + msg + ")"
	}
	return false, fmt.Sprintf("NOT-REPRODUCED (failures=%v)", fails)
}

// Tier returns "quick" or "thorough".
func Tier() string {
	if t := os.Getenv("VERIF_TIER"); t != "" {
		return t
	}
	return "quick"
}

// Bound selects a bound by tier.
func Bound(name string, quick, thorough int) int {
	if Tier() == "thorough" {
		return thorough
	}
	return quick
}

// And / Or / Not / Implies combine conditions without introducing branches (in the engine they
// build one term instead of forking the path).
func And(cs ...bool) bool {
	for _, c := range cs {
		if !c {
			return false
		}
	}
	return true
}

func Or(cs ...bool) bool {
	for _, c := range cs {
		if c {
			return true
		}
	}
	return false
}

func Not(c bool) bool { return !c }

func Implies(a, b bool) bool { return !a || b }

// CharsIn reports whether every byte of s occurs in set.
func CharsIn(s string, set string) bool {
	for i := 0; i < len(s); i++ {
		if strings.IndexByte(set, s[i]) < 0 {
			return false
		}
	}
	return true
}

// BytesEq compares without branching on individual bytes.
func BytesEq(a, b []byte) bool { return string(a) == string(b) }

// StrEq compares strings (one term in the engine).
func StrEq(a, b string) bool { return a == b }

// MarshalOpaque / UnmarshalOpaque / UnpackAnyOpaque exist only inside the engine (models.Codec).
func MarshalOpaque(msg interface{}) []byte { panic("rt.MarshalOpaque: engine only") }

func UnmarshalOpaque(bz []byte, ptr interface{}) bool { panic("rt.UnmarshalOpaque: engine only") }

func UnpackAnyOpaque(any interface{}, iface interface{}) bool {
	panic("rt.UnpackAnyOpaque: engine only")
}

func UnmarshalInterfaceOpaque(bz []byte, ptr interface{}) bool {
	panic("rt.UnmarshalInterfaceOpaque: engine only")
}

// SetMapOrder selects, inside the engine, which of two map iteration orders (ascending /
// descending keys) the following code sees. Natively Go's own randomised order applies, so
// determinism harnesses repeat the computation several times instead (see Repeats).
func SetMapOrder(reverse bool) {}

// Repeats is how often a determinism harness re-runs a computation: 2 in the engine (the two map
// orders), 24 natively (random orders).
func Repeats() int {
	return 24
}

// witnessFile is one passing path of the engine: the inputs (model) and the cover points seen.
type witnessFile struct {
	Harness string            `json:"harness"`
	Model   map[string]string `json:"model"`
	Covers  []string          `json:"covers"`
}

// WitnessMain replays the engine's passing-path witnesses ($VERIF_WITNESSES: a JSON list)
// natively: the real code on the same inputs must satisfy the assumptions, fail no assertion,
// not panic and reach the same cover points. Returns one report line per witness.
func WitnessMain(harnesses map[string]func()) (agree, differ int, lines []string) {
	p := os.Getenv("VERIF_WITNESSES")
	bz, err := os.ReadFile(p)
	if err != nil {
		return 0, 1, []string{"cannot read witnesses: " + err.Error()}
	}
	var ws []witnessFile
	if err := json.Unmarshal(bz, &ws); err != nil {
		return 0, 1, []string{"cannot parse witnesses: " + err.Error()}
	}
	for k, w := range ws {
		fn, have := harnesses[w.Harness]
		if !have {
			continue
		}
		replay = &replayFile{Harness: w.Harness, Kind: "witness", Model: w.Model}
		fails, panicked, msg, af := RunNative(fn)
		got := map[string]bool{}
		for _, c := range Covered {
			got[c] = true
		}
		want := map[string]bool{}
		for _, c := range w.Covers {
			want[c] = true
		}
		why := ""
		switch {
		case af:
			why = "assumption does not hold natively"
		case panicked:
			why = "native panic: " + msg
		case len(fails) > 0:
			why = fmt.Sprintf("native assertion failures: %v", fails)
		default:
			for c := range want {
				if !got[c] {
					why = "cover point not reached natively: " + c
				}
			}
			for c := range got {
				if !want[c] {
					why = "cover point reached only natively: " + c
				}
			}
		}
		if why == "" {
			agree++
		} else {
			differ++
			lines = append(lines, fmt.Sprintf("witness %d of %s: %s", k, w.Harness, why))
		}
	}
	return agree, differ, lines
}
