// Package rtsig provides real secp256k1 signatures for native replays of the gosymx harnesses;
// inside the engine both functions are intercepted.
package rtsig

import (
	"crypto/ecdsa"
	"fmt"

	"github.com/ethereum/go-ethereum/crypto"
)

// KeyAddresses are the Ethereum addresses of the deterministic harness keys 0..2
// (key i = keccak256("gosymx-verif-key-i")); TestKeyAddresses-like self check in Sign.
var KeyAddresses = [3]string{
	"0xA022369ADF0747E15f3557cD7a3fBF6298AB7980",
	"0x66282C9DE6A57192934c0516cc8767f8Ec8d9f1C",
	"0xeB65FDDE895520490F8c43776e0795877e63F967",
}

func key(i int) *ecdsa.PrivateKey {
	k, err := crypto.ToECDSA(crypto.Keccak256([]byte(fmt.Sprintf("gosymx-verif-key-%d", i))))
	if err != nil {
		panic(err)
	}
	if crypto.PubkeyToAddress(k.PublicKey).Hex() != KeyAddresses[i] {
		panic("rtsig: key address table out of date")
	}
	return k
}

const prefix = "\x19Ethereum Signed Message:\n32"

// SignEth signs keccak256(prefix || hash) with harness key i (Ethereum personal-message style,
// as the bridge contracts verify it).
func SignEth(hash []byte, i int) []byte {
	protected := crypto.Keccak256(append([]byte(prefix), hash...))
	sig, err := crypto.Sign(protected, key(i))
	if err != nil {
		panic(err)
	}
	return sig
}
