package models

import (
	"context"

	sdkmath "cosmossdk.io/math"
	sdk "github.com/cosmos/cosmos-sdk/types"
	distrtypes "github.com/cosmos/cosmos-sdk/x/distribution/types"
	stakingtypes "github.com/cosmos/cosmos-sdk/x/staking/types"
)

// DelegationRec is one recorded staking message.
type DelegationRec struct {
	Kind      string // delegate | undelegate | redelegate | withdraw
	Delegator string
	Validator string
	Dst       string
	Amount    sdkmath.Int
}

// StakingMsgs models the staking and distribution message servers as used by the crosschain
// oracle lifecycle: messages are recorded; Delegate moves the coins from the delegator to the
// bonded pool in the bank model (if attached); every call may be made to fail.
type StakingMsgs struct {
	Bank     *Bank
	Recs     []DelegationRec
	FailNext bool
}

const BondedPool = "bonded_tokens_pool"

func (s *StakingMsgs) fail() bool {
	if s.FailNext {
		s.FailNext = false
		return true
	}
	return false
}

func (s *StakingMsgs) Delegate(ctx context.Context, msg *stakingtypes.MsgDelegate) (*stakingtypes.MsgDelegateResponse, error) {
	if s.fail() {
		return nil, bankError("staking: injected failure")
	}
	if s.Bank != nil {
		del, err := sdk.AccAddressFromBech32(msg.DelegatorAddress)
		if err != nil {
			return nil, err
		}
		if err := s.Bank.move(s.Bank.state(ctx), del, ModuleAddress(BondedPool), sdk.Coins{msg.Amount}); err != nil {
			return nil, err
		}
	}
	s.Recs = append(s.Recs, DelegationRec{Kind: "delegate", Delegator: msg.DelegatorAddress, Validator: msg.ValidatorAddress, Amount: msg.Amount.Amount})
	return &stakingtypes.MsgDelegateResponse{}, nil
}

func (s *StakingMsgs) Undelegate(ctx context.Context, msg *stakingtypes.MsgUndelegate) (*stakingtypes.MsgUndelegateResponse, error) {
	if s.fail() {
		return nil, bankError("staking: injected failure")
	}
	s.Recs = append(s.Recs, DelegationRec{Kind: "undelegate", Delegator: msg.DelegatorAddress, Validator: msg.ValidatorAddress, Amount: msg.Amount.Amount})
	return &stakingtypes.MsgUndelegateResponse{}, nil
}

func (s *StakingMsgs) BeginRedelegate(ctx context.Context, msg *stakingtypes.MsgBeginRedelegate) (*stakingtypes.MsgBeginRedelegateResponse, error) {
	if s.fail() {
		return nil, bankError("staking: injected failure")
	}
	s.Recs = append(s.Recs, DelegationRec{Kind: "redelegate", Delegator: msg.DelegatorAddress, Validator: msg.ValidatorSrcAddress, Dst: msg.ValidatorDstAddress, Amount: msg.Amount.Amount})
	return &stakingtypes.MsgBeginRedelegateResponse{}, nil
}

func (s *StakingMsgs) WithdrawDelegatorReward(ctx context.Context, msg *distrtypes.MsgWithdrawDelegatorReward) (*distrtypes.MsgWithdrawDelegatorRewardResponse, error) {
	if s.fail() {
		return nil, bankError("distribution: injected failure")
	}
	s.Recs = append(s.Recs, DelegationRec{Kind: "withdraw", Delegator: msg.DelegatorAddress, Validator: msg.ValidatorAddress})
	return &distrtypes.MsgWithdrawDelegatorRewardResponse{}, nil
}

// StakingView models the read side of the staking keeper used by the crosschain module.
type StakingView struct {
	Unbonding [][]byte // delegators that still have an unbonding delegation in progress
	Delegated []DelegationRec
}

func (s *StakingView) GetValidator(ctx context.Context, addr sdk.ValAddress) (stakingtypes.Validator, error) {
	return stakingtypes.Validator{OperatorAddress: addr.String(), Status: stakingtypes.Bonded, Tokens: sdkmath.NewInt(1), DelegatorShares: sdkmath.LegacyOneDec()}, nil
}

func (s *StakingView) GetDelegation(ctx context.Context, del sdk.AccAddress, val sdk.ValAddress) (stakingtypes.Delegation, error) {
	for _, d := range s.Delegated {
		if d.Delegator == del.String() {
			return stakingtypes.Delegation{DelegatorAddress: d.Delegator, ValidatorAddress: val.String(), Shares: sdkmath.LegacyNewDecFromInt(d.Amount)}, nil
		}
	}
	return stakingtypes.Delegation{}, stakingtypes.ErrNoDelegation
}

func (s *StakingView) GetUnbondingDelegation(ctx context.Context, del sdk.AccAddress, val sdk.ValAddress) (stakingtypes.UnbondingDelegation, error) {
	for _, u := range s.Unbonding {
		if string(u) == string(del) {
			return stakingtypes.UnbondingDelegation{DelegatorAddress: del.String(), ValidatorAddress: val.String()}, nil
		}
	}
	return stakingtypes.UnbondingDelegation{}, stakingtypes.ErrNoUnbondingDelegation
}
