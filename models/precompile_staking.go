package models

import (
	"bytes"
	"context"
	"math/big"

	sdkmath "cosmossdk.io/math"
	sdk "github.com/cosmos/cosmos-sdk/types"
	distrtypes "github.com/cosmos/cosmos-sdk/x/distribution/types"
	stakingtypes "github.com/cosmos/cosmos-sdk/x/staking/types"
)

type delEntry struct {
	del    []byte
	shares sdkmath.LegacyDec
}

type allowEntry struct {
	owner, spender []byte
	amt            *big.Int
}

type startEntry struct {
	del  []byte
	info distrtypes.DelegatorStartingInfo
}

// StakingLedger models, for ONE validator, the staking and distribution keeper state the staking
// precompile's share-transfer code reads and rewrites.
type StakingLedger struct {
	Validator  stakingtypes.Validator
	ValAddr    sdk.ValAddress
	dels       []delEntry
	allow      []allowEntry
	starts     []startEntry
	RefCount   map[uint64]uint32 // historical rewards reference counts by period
	Period     uint64            // validator current rewards period
	Receiving  [][]byte          // delegators with an incoming redelegation
	Withdrawn  [][]byte          // delegators whose rewards were withdrawn (in call order)
	Reward     sdkmath.Int       // reward paid per withdrawal (to the delegator, via Bank)
	Bank       *Bank
	Denom      string
	Writes     int
	PeriodIncr int
	Guard      func() // called at the start of every mutating entry point (harness hook)
	FailAt     int    // the FailAt-th mutating call (1-based) fails; 0 = never
	Fired      bool   // the injected failure was hit
	mutations  int
}

type ledgerError string

func (e ledgerError) Error() string { return string(e) }

// mutate is the common prologue of every mutating entry point.
func (l *StakingLedger) mutate() error {
	if l.Guard != nil {
		l.Guard()
	}
	l.mutations++
	if l.FailAt > 0 && l.mutations == l.FailAt {
		l.Fired = true
		return ledgerError("staking ledger: injected failure")
	}
	return nil
}

func NewStakingLedger(val stakingtypes.Validator, valAddr sdk.ValAddress, bank *Bank, denom string) *StakingLedger {
	return &StakingLedger{Validator: val, ValAddr: valAddr, RefCount: map[uint64]uint32{}, Period: 5, Bank: bank, Denom: denom, Reward: sdkmath.ZeroInt()}
}

func (l *StakingLedger) findDel(del []byte) int {
	for i := range l.dels {
		if bytes.Equal(l.dels[i].del, del) {
			return i
		}
	}
	return -1
}

// Shares returns the delegation shares of del (zero if none) and whether a delegation exists.
func (l *StakingLedger) Shares(del []byte) (sdkmath.LegacyDec, bool) {
	if i := l.findDel(del); i >= 0 {
		return l.dels[i].shares, true
	}
	return sdkmath.LegacyZeroDec(), false
}

// SetShares installs a delegation with its starting info (state construction).
func (l *StakingLedger) SetShares(del []byte, shares sdkmath.LegacyDec, prevPeriod uint64) {
	if i := l.findDel(del); i >= 0 {
		l.dels[i].shares = shares
	} else {
		l.dels = append(l.dels, delEntry{clone(del), shares})
	}
	l.starts = append(l.starts, startEntry{clone(del), distrtypes.DelegatorStartingInfo{PreviousPeriod: prevPeriod, Stake: l.Validator.TokensFromSharesTruncated(shares), Height: 1}})
	l.RefCount[prevPeriod]++
}

func (l *StakingLedger) GetValidator(ctx context.Context, addr sdk.ValAddress) (stakingtypes.Validator, error) {
	if !bytes.Equal(addr, l.ValAddr) {
		return stakingtypes.Validator{}, stakingtypes.ErrNoValidatorFound
	}
	return l.Validator, nil
}

func (l *StakingLedger) GetDelegation(ctx context.Context, del sdk.AccAddress, val sdk.ValAddress) (stakingtypes.Delegation, error) {
	if i := l.findDel(del); i >= 0 && bytes.Equal(val, l.ValAddr) {
		return stakingtypes.Delegation{DelegatorAddress: del.String(), ValidatorAddress: val.String(), Shares: l.dels[i].shares}, nil
	}
	return stakingtypes.Delegation{}, stakingtypes.ErrNoDelegation
}

func (l *StakingLedger) SetDelegation(ctx context.Context, d stakingtypes.Delegation) error {
	if err := l.mutate(); err != nil {
		return err
	}
	del, err := sdk.AccAddressFromBech32(d.DelegatorAddress)
	if err != nil {
		return err
	}
	l.Writes++
	if i := l.findDel(del); i >= 0 {
		l.dels[i].shares = d.Shares
		return nil
	}
	l.dels = append(l.dels, delEntry{clone(del), d.Shares})
	return nil
}

func (l *StakingLedger) RemoveDelegation(ctx context.Context, d stakingtypes.Delegation) error {
	if err := l.mutate(); err != nil {
		return err
	}
	del, err := sdk.AccAddressFromBech32(d.DelegatorAddress)
	if err != nil {
		return err
	}
	l.Writes++
	if i := l.findDel(del); i >= 0 {
		l.dels = append(l.dels[:i:i], l.dels[i+1:]...)
	}
	return nil
}

func (l *StakingLedger) HasReceivingRedelegation(ctx context.Context, del sdk.AccAddress, val sdk.ValAddress) (bool, error) {
	for _, r := range l.Receiving {
		if bytes.Equal(r, del) {
			return true, nil
		}
	}
	return false, nil
}

func (l *StakingLedger) findAllow(owner, spender []byte) int {
	for i := range l.allow {
		if bytes.Equal(l.allow[i].owner, owner) && bytes.Equal(l.allow[i].spender, spender) {
			return i
		}
	}
	return -1
}

func (l *StakingLedger) GetAllowance(ctx sdk.Context, val sdk.ValAddress, owner, spender sdk.AccAddress) *big.Int {
	if i := l.findAllow(owner, spender); i >= 0 {
		return new(big.Int).Set(l.allow[i].amt)
	}
	return big.NewInt(0)
}

func (l *StakingLedger) SetAllowance(ctx sdk.Context, val sdk.ValAddress, owner, spender sdk.AccAddress, shares *big.Int) {
	if l.Guard != nil {
		l.Guard()
	}
	l.Writes++
	if i := l.findAllow(owner, spender); i >= 0 {
		l.allow[i].amt = new(big.Int).Set(shares)
		return
	}
	l.allow = append(l.allow, allowEntry{clone(owner), clone(spender), new(big.Int).Set(shares)})
}

// ---- distribution keeper side

func (l *StakingLedger) GetDelegatorWithdrawAddr(ctx context.Context, del sdk.AccAddress) (sdk.AccAddress, error) {
	return del, nil
}

func (l *StakingLedger) IncrementValidatorPeriod(ctx context.Context, val stakingtypes.ValidatorI) (uint64, error) {
	if err := l.mutate(); err != nil {
		return 0, err
	}
	l.PeriodIncr++
	l.RefCount[l.Period] = 1
	l.Period++
	return l.Period - 1, nil
}

func (l *StakingLedger) findStart(del []byte) int {
	for i := range l.starts {
		if bytes.Equal(l.starts[i].del, del) {
			return i
		}
	}
	return -1
}

func (l *StakingLedger) StartingInfo(del []byte) (distrtypes.DelegatorStartingInfo, bool) {
	if i := l.findStart(del); i >= 0 {
		return l.starts[i].info, true
	}
	return distrtypes.DelegatorStartingInfo{}, false
}

func (l *StakingLedger) GetDelegatorStartingInfo(ctx context.Context, val sdk.ValAddress, del sdk.AccAddress) (distrtypes.DelegatorStartingInfo, error) {
	if i := l.findStart(del); i >= 0 {
		return l.starts[i].info, nil
	}
	return distrtypes.DelegatorStartingInfo{}, bankError("distribution: no starting info")
}

func (l *StakingLedger) SetDelegatorStartingInfo(ctx context.Context, val sdk.ValAddress, del sdk.AccAddress, info distrtypes.DelegatorStartingInfo) error {
	if err := l.mutate(); err != nil {
		return err
	}
	l.Writes++
	if i := l.findStart(del); i >= 0 {
		l.starts[i].info = info
		return nil
	}
	l.starts = append(l.starts, startEntry{clone(del), info})
	return nil
}

func (l *StakingLedger) DeleteDelegatorStartingInfo(ctx context.Context, val sdk.ValAddress, del sdk.AccAddress) error {
	if err := l.mutate(); err != nil {
		return err
	}
	l.Writes++
	if i := l.findStart(del); i >= 0 {
		l.starts = append(l.starts[:i:i], l.starts[i+1:]...)
	}
	return nil
}

func (l *StakingLedger) GetValidatorCurrentRewards(ctx context.Context, val sdk.ValAddress) (distrtypes.ValidatorCurrentRewards, error) {
	return distrtypes.ValidatorCurrentRewards{Period: l.Period}, nil
}

func (l *StakingLedger) GetValidatorHistoricalRewards(ctx context.Context, val sdk.ValAddress, period uint64) (distrtypes.ValidatorHistoricalRewards, error) {
	return distrtypes.ValidatorHistoricalRewards{ReferenceCount: l.RefCount[period]}, nil
}

func (l *StakingLedger) SetValidatorHistoricalRewards(ctx context.Context, val sdk.ValAddress, period uint64, r distrtypes.ValidatorHistoricalRewards) error {
	if err := l.mutate(); err != nil {
		return err
	}
	l.Writes++
	l.RefCount[period] = r.ReferenceCount
	return nil
}

func (l *StakingLedger) DeleteValidatorHistoricalReward(ctx context.Context, val sdk.ValAddress, period uint64) error {
	if err := l.mutate(); err != nil {
		return err
	}
	l.Writes++
	delete(l.RefCount, period)
	return nil
}

func (l *StakingLedger) CalculateDelegationRewards(ctx context.Context, val stakingtypes.ValidatorI, del stakingtypes.DelegationI, endingPeriod uint64) (sdk.DecCoins, error) {
	return nil, nil
}

// WithdrawDelegatorReward (distribution msg server): pays Reward from the distribution module to
// the delegator and records the call. The real keeper also re-bases the delegator's starting
// info on the new period; the model keeps the starting info as it is.
func (l *StakingLedger) WithdrawDelegatorReward(ctx context.Context, msg *distrtypes.MsgWithdrawDelegatorReward) (*distrtypes.MsgWithdrawDelegatorRewardResponse, error) {
	if err := l.mutate(); err != nil {
		return nil, err
	}
	del, err := sdk.AccAddressFromBech32(msg.DelegatorAddress)
	if err != nil {
		return nil, err
	}
	if l.findDel(del) < 0 {
		return nil, stakingtypes.ErrNoDelegation
	}
	l.Withdrawn = append(l.Withdrawn, clone(del))
	coins := sdk.Coins{}
	if l.Reward.IsPositive() {
		coins = sdk.Coins{sdk.Coin{Denom: l.Denom, Amount: l.Reward}}
		if l.Bank != nil {
			st := l.Bank.state(ctx)
			st.set(del, l.Denom, st.balance(del, l.Denom).Add(l.Reward))
		}
	}
	return &distrtypes.MsgWithdrawDelegatorRewardResponse{Amount: coins}, nil
}

// LedgerSnap is a copy of the mutable ledger state.
type LedgerSnap struct {
	dels      []delEntry
	allow     []allowEntry
	starts    []startEntry
	refCount  map[uint64]uint32
	period    uint64
	withdrawn int
}

func (l *StakingLedger) Snapshot() *LedgerSnap {
	s := &LedgerSnap{period: l.Period, refCount: map[uint64]uint32{}, withdrawn: len(l.Withdrawn)}
	s.dels = append(s.dels, l.dels...)
	s.allow = append(s.allow, l.allow...)
	s.starts = append(s.starts, l.starts...)
	for k, v := range l.RefCount {
		s.refCount[k] = v
	}
	return s
}

func (l *StakingLedger) Restore(s *LedgerSnap) {
	l.dels = append([]delEntry(nil), s.dels...)
	l.allow = append([]allowEntry(nil), s.allow...)
	l.starts = append([]startEntry(nil), s.starts...)
	l.RefCount = map[uint64]uint32{}
	for k, v := range s.refCount {
		l.RefCount[k] = v
	}
	l.Period = s.period
	l.Withdrawn = l.Withdrawn[:s.withdrawn]
}

// SameAs reports whether the ledger equals the snapshot (delegations, allowances, starting infos,
// reference counts, period), without branching on individual bytes of amounts.
func (l *StakingLedger) SameAs(s *LedgerSnap) bool {
	if len(l.dels) != len(s.dels) || len(l.allow) != len(s.allow) || len(l.starts) != len(s.starts) || l.Period != s.period || len(l.RefCount) != len(s.refCount) {
		return false
	}
	for i := range l.dels {
		if !bytes.Equal(l.dels[i].del, s.dels[i].del) || !l.dels[i].shares.Equal(s.dels[i].shares) {
			return false
		}
	}
	for i := range l.allow {
		if !bytes.Equal(l.allow[i].owner, s.allow[i].owner) || !bytes.Equal(l.allow[i].spender, s.allow[i].spender) || l.allow[i].amt.Cmp(s.allow[i].amt) != 0 {
			return false
		}
	}
	for i := range l.starts {
		if !bytes.Equal(l.starts[i].del, s.starts[i].del) || l.starts[i].info.PreviousPeriod != s.starts[i].info.PreviousPeriod || !l.starts[i].info.Stake.Equal(s.starts[i].info.Stake) {
			return false
		}
	}
	for k, v := range s.refCount {
		if l.RefCount[k] != v {
			return false
		}
	}
	return true
}
