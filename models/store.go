// Package models holds the Go-level environment models used by the gosymx harnesses: they are
// executed symbolically by the engine and natively when a counterexample is replayed.
package models

import (
	"bytes"
	"io"

	storetypes "cosmossdk.io/store/types"
)

// ---------------------------------------------------------------------------------------------
// KVStore: association list with ordered iteration

type kvEntry struct {
	key, val []byte
}

// KVStore implements storetypes.KVStore over an association list.
type KVStore struct {
	entries []kvEntry
	Writes  int // number of Set/Delete calls (harnesses use it to detect writes)
}

var _ storetypes.KVStore = (*KVStore)(nil)

func NewKVStore() *KVStore { return &KVStore{} }

func clone(b []byte) []byte {
	if b == nil {
		return nil
	}
	out := make([]byte, len(b))
	copy(out, b)
	return out
}

func (s *KVStore) GetStoreType() storetypes.StoreType { return storetypes.StoreTypeIAVL }
func (s *KVStore) CacheWrap() storetypes.CacheWrap    { panic("models.KVStore.CacheWrap: not modelled") }
func (s *KVStore) CacheWrapWithTrace(w io.Writer, tc storetypes.TraceContext) storetypes.CacheWrap {
	panic("models.KVStore.CacheWrapWithTrace: not modelled")
}

func (s *KVStore) find(key []byte) int {
	for i := range s.entries {
		if bytes.Equal(s.entries[i].key, key) {
			return i
		}
	}
	return -1
}

func (s *KVStore) Get(key []byte) []byte {
	if len(key) == 0 {
		panic("key is nil or empty")
	}
	if i := s.find(key); i >= 0 {
		return clone(s.entries[i].val)
	}
	return nil
}

func (s *KVStore) Has(key []byte) bool {
	if len(key) == 0 {
		panic("key is nil or empty")
	}
	return s.find(key) >= 0
}

func (s *KVStore) Set(key, value []byte) {
	if len(key) == 0 {
		panic("key is nil or empty")
	}
	if value == nil {
		panic("value is nil")
	}
	s.Writes++
	if i := s.find(key); i >= 0 {
		s.entries[i].val = clone(value)
		return
	}
	s.entries = append(s.entries, kvEntry{clone(key), clone(value)})
}

func (s *KVStore) Delete(key []byte) {
	if len(key) == 0 {
		panic("key is nil or empty")
	}
	s.Writes++
	if i := s.find(key); i >= 0 {
		s.entries = append(s.entries[:i:i], s.entries[i+1:]...)
	}
}

// Len returns the number of stored keys.
func (s *KVStore) Len() int { return len(s.entries) }

// Copy returns an independent copy.
func (s *KVStore) Copy() *KVStore {
	c := &KVStore{entries: make([]kvEntry, len(s.entries)), Writes: s.Writes}
	for i, e := range s.entries {
		c.entries[i] = kvEntry{clone(e.key), clone(e.val)}
	}
	return c
}

// Equal reports whether both stores hold the same key/value pairs (order-insensitive).
// The comparison is written without branching on individual bytes.
func (s *KVStore) Equal(o *KVStore) bool {
	if len(s.entries) != len(o.entries) {
		return false
	}
	for _, e := range s.entries {
		j := o.find(e.key)
		if j < 0 {
			return false
		}
		if !bytes.Equal(e.val, o.entries[j].val) {
			return false
		}
	}
	return true
}

// Keys returns the keys in insertion order (diagnostics / harness enumeration).
func (s *KVStore) Keys() [][]byte {
	out := make([][]byte, len(s.entries))
	for i, e := range s.entries {
		out[i] = clone(e.key)
	}
	return out
}

type kvIterator struct {
	start, end []byte
	items      []kvEntry
	pos        int
}

func (it *kvIterator) Domain() ([]byte, []byte) { return it.start, it.end }
func (it *kvIterator) Valid() bool              { return it.pos < len(it.items) }
func (it *kvIterator) Next() {
	if !it.Valid() {
		panic("iterator is invalid")
	}
	it.pos++
}
func (it *kvIterator) Key() []byte {
	if !it.Valid() {
		panic("iterator is invalid")
	}
	return clone(it.items[it.pos].key)
}
func (it *kvIterator) Value() []byte {
	if !it.Valid() {
		panic("iterator is invalid")
	}
	return clone(it.items[it.pos].val)
}
func (it *kvIterator) Error() error { return nil }
func (it *kvIterator) Close() error { return nil }

func (s *KVStore) collect(start, end []byte, reverse bool) *kvIterator {
	if (start != nil && len(start) == 0) || (end != nil && len(end) == 0) {
		panic("key is nil or empty")
	}
	var items []kvEntry
	for _, e := range s.entries {
		if start != nil && bytes.Compare(e.key, start) < 0 {
			continue
		}
		if end != nil && bytes.Compare(e.key, end) >= 0 {
			continue
		}
		// insertion sort by key
		pos := len(items)
		for pos > 0 {
			c := bytes.Compare(items[pos-1].key, e.key)
			if (!reverse && c > 0) || (reverse && c < 0) {
				pos--
			} else {
				break
			}
		}
		items = append(items, kvEntry{})
		copy(items[pos+1:], items[pos:])
		items[pos] = kvEntry{clone(e.key), clone(e.val)}
	}
	return &kvIterator{start: start, end: end, items: items}
}

func (s *KVStore) Iterator(start, end []byte) storetypes.Iterator {
	return s.collect(start, end, false)
}

func (s *KVStore) ReverseIterator(start, end []byte) storetypes.Iterator {
	return s.collect(start, end, true)
}

// ---------------------------------------------------------------------------------------------
// MultiStore with cache layers

// StoreKey is a named store key.
type StoreKey struct{ name string }

func NewStoreKey(name string) *StoreKey { return &StoreKey{name} }
func (k *StoreKey) Name() string        { return k.name }
func (k *StoreKey) String() string      { return "StoreKey{" + k.name + "}" }

// MultiStore implements the part of storetypes.MultiStore / CacheMultiStore that sdk.Context uses.
type unmodelled = storetypes.CacheMultiStore

// Sidecar is model state that lives beside the KV stores but must branch and commit with them
// (bank balances, token ledgers, ...): it is copied into every cache branch and copied back on Write.
type Sidecar interface {
	CopySide() Sidecar
}

type MultiStore struct {
	unmodelled // nil: every method not defined below panics
	side       map[string]Sidecar
	parent     *MultiStore
	stores     map[string]*KVStore
	names      []string
}

func NewMultiStore(names ...string) *MultiStore {
	ms := &MultiStore{stores: map[string]*KVStore{}, side: map[string]Sidecar{}}
	for _, n := range names {
		ms.stores[n] = NewKVStore()
		ms.names = append(ms.names, n)
	}
	return ms
}

func (ms *MultiStore) GetStoreType() storetypes.StoreType { return storetypes.StoreTypeMulti }

func (ms *MultiStore) Store(name string) *KVStore {
	s, ok := ms.stores[name]
	if !ok {
		panic("models.MultiStore: unknown store " + name)
	}
	return s
}

func (ms *MultiStore) GetKVStore(key storetypes.StoreKey) storetypes.KVStore {
	return ms.Store(key.Name())
}

func (ms *MultiStore) GetStore(key storetypes.StoreKey) storetypes.Store { return ms.Store(key.Name()) }

// CacheMultiStore branches the state: writes go to copies until Write is called.
func (ms *MultiStore) CacheMultiStore() storetypes.CacheMultiStore {
	c := &MultiStore{parent: ms, stores: map[string]*KVStore{}, names: ms.names, side: map[string]Sidecar{}}
	for _, n := range ms.names {
		c.stores[n] = ms.stores[n].Copy()
	}
	for _, k := range ms.sideNames() {
		c.side[k] = ms.side[k].CopySide()
	}
	return c
}

func (ms *MultiStore) sideNames() []string {
	// fixed order (map iteration order must not matter)
	var out []string
	for _, k := range []string{"bank", "erc20", "staking", "aux"} {
		if _, ok := ms.side[k]; ok {
			out = append(out, k)
		}
	}
	return out
}

// SetSide attaches sidecar state under one of the names bank | erc20 | staking | aux.
func (ms *MultiStore) SetSide(name string, s Sidecar) { ms.side[name] = s }

// Side returns the sidecar state of this branch.
func (ms *MultiStore) Side(name string) Sidecar { return ms.side[name] }

// Write copies the branch back into its parent.
func (ms *MultiStore) Write() {
	if ms.parent == nil {
		panic("models.MultiStore.Write on a root store")
	}
	for _, n := range ms.names {
		cp := ms.stores[n].Copy()
		ms.parent.stores[n].entries = cp.entries
		ms.parent.stores[n].Writes = cp.Writes
	}
	for _, k := range ms.sideNames() {
		ms.parent.side[k] = ms.side[k].CopySide()
	}
}

func (ms *MultiStore) RunAtomic(cb func(storetypes.CacheMultiStore) error) error {
	branch := ms.CacheMultiStore().(*MultiStore)
	if err := cb(branch); err != nil {
		return err
	}
	branch.Write()
	return nil
}

func (ms *MultiStore) TracingEnabled() bool { return false }

// Snapshot returns an independent copy of all stores.
func (ms *MultiStore) Snapshot() *MultiStore {
	c := &MultiStore{stores: map[string]*KVStore{}, names: ms.names, side: map[string]Sidecar{}}
	for _, n := range ms.names {
		c.stores[n] = ms.stores[n].Copy()
	}
	for _, k := range ms.sideNames() {
		c.side[k] = ms.side[k].CopySide()
	}
	return c
}

// Equal compares all stores.
func (ms *MultiStore) Equal(o *MultiStore) bool {
	for _, n := range ms.names {
		if !ms.stores[n].Equal(o.stores[n]) {
			return false
		}
	}
	return true
}

// TotalWrites sums the write counters.
func (ms *MultiStore) TotalWrites() int {
	t := 0
	for _, n := range ms.names {
		t += ms.stores[n].Writes
	}
	return t
}
