package models

import (
	"math/big"

	sdkmath "cosmossdk.io/math"
	sdk "github.com/cosmos/cosmos-sdk/types"

	"github.com/functionx/fx-core/v8/zzverif/rt"
)

// Hostile generates message field values as a decoded transaction can carry them: well-formed or
// ill-formed, with at most Budget ill-formed fields per message (validators stop at the first
// error, so this bounds the combinations without hiding a single check or a pair of checks).
type Hostile struct{ Budget int }

const HostileExtAddr = "0x5aAeb6053F3E94C9b9A09f33669435E7Ef1BeAed"

func (h *Hostile) ill(name string, shapes int) int {
	if h.Budget == 0 {
		return 0
	}
	k := rt.Choose(name+".shape", shapes)
	if k != 0 {
		h.Budget--
	}
	return k
}

func printable() string {
	b := make([]byte, 0, 94)
	for c := byte(0x21); c <= 0x7e; c++ {
		b = append(b, c)
	}
	return string(b)
}

// Junk is arbitrary printable text of n characters.
func (h *Hostile) Junk(name string, n int) string {
	s := rt.Str(name, n)
	rt.Assume(rt.CharsIn(s, printable()))
	return s
}

// Acc: a well-formed account address, the empty string or junk.
func (h *Hostile) Acc(name string) string {
	switch h.ill(name, 3) {
	case 0:
		return sdk.AccAddress(rt.Bytes(name, 20)).String()
	case 1:
		return ""
	}
	return h.Junk(name, rt.Bound("junkTextLen", 7, 9))
}

// Ext: a checksummed hex address, empty, too short with arbitrary bytes, or wrong prefix.
func (h *Hostile) Ext(name string) string {
	switch h.ill(name, 4) {
	case 0:
		return HostileExtAddr
	case 1:
		return ""
	case 2:
		return "0x" + rt.Str(name, 3)
	}
	return "0X" + HostileExtAddr[2:]
}

// Hex: empty or two arbitrary characters, or (ill-formed) an odd number of characters.
func (h *Hostile) Hex(name string) string {
	if h.ill(name, 2) == 1 {
		return rt.Str(name, 3)
	}
	return rt.Str(name, 2*rt.Choose(name+".len", 2))
}

// Int: absent (nil) or any value in (-2^100, 2^100).
func (h *Hostile) Int(name string) sdkmath.Int {
	if h.ill(name+".nil", 2) == 1 {
		return sdkmath.Int{}
	}
	b := rt.BigInt(name)
	lim := new(big.Int).Lsh(big.NewInt(1), 100)
	rt.Assume(rt.And(b.Cmp(lim) < 0, b.Cmp(new(big.Int).Neg(lim)) > 0))
	return sdkmath.NewIntFromBigInt(b)
}

// Coin with a valid, empty or invalid denomination and a hostile amount.
func (h *Hostile) Coin(name, goodDenom string) sdk.Coin {
	denoms := []string{goodDenom, "", "bad denom!"}
	return sdk.Coin{Denom: denoms[h.ill(name+".denom", 3)], Amount: h.Int(name + ".amount")}
}
