package models

import (
	"github.com/cosmos/cosmos-sdk/codec"
	codectypes "github.com/cosmos/cosmos-sdk/codec/types"
	"github.com/cosmos/gogoproto/proto"

	"github.com/functionx/fx-core/v8/zzverif/rt"
)

// Codec is the engine-side model of codec.BinaryCodec: Marshal yields an opaque, non-empty
// handle to a deep copy of the message, Unmarshal copies it back (round-trip identity; the
// protobuf wire format is not modelled). Natively the real ProtoCodec is used instead.
type Codec struct {
	codec.BinaryCodec // nil: unmodelled methods panic
}

// NewCodec returns the model inside the engine and real (registered via reg) natively.
func NewCodec(real func() codec.BinaryCodec) codec.BinaryCodec {
	if rt.Symbolic() {
		return Codec{}
	}
	if real == nil {
		return codec.NewProtoCodec(codectypes.NewInterfaceRegistry())
	}
	return real()
}

func (Codec) Marshal(o proto.Message) ([]byte, error) { return rt.MarshalOpaque(o), nil }
func (Codec) MustMarshal(o proto.Message) []byte      { return rt.MarshalOpaque(o) }
func (Codec) Unmarshal(bz []byte, ptr proto.Message) error {
	if !rt.UnmarshalOpaque(bz, ptr) {
		return errUnmarshal
	}
	return nil
}

func (Codec) MustUnmarshal(bz []byte, ptr proto.Message) {
	if !rt.UnmarshalOpaque(bz, ptr) {
		panic(errUnmarshal)
	}
}

func (Codec) UnpackAny(any *codectypes.Any, iface interface{}) error {
	if !rt.UnpackAnyOpaque(any, iface) {
		return errUnmarshal
	}
	return nil
}

type codecError string

func (e codecError) Error() string { return string(e) }

const errUnmarshal = codecError("models.Codec: cannot unmarshal (type mismatch or foreign bytes)")

func (Codec) MarshalInterface(i proto.Message) ([]byte, error) { return rt.MarshalOpaque(i), nil }

func (Codec) UnmarshalInterface(bz []byte, ptr interface{}) error {
	if !rt.UnmarshalInterfaceOpaque(bz, ptr) {
		return errUnmarshal
	}
	return nil
}

// FullCodec is the model codec behind the full codec.Codec interface (which keepers built with
// codec.CollValue demand). Only the binary methods are modelled; every other method is a nil
// dereference, i.e. an explicit failure.
type FullCodec struct {
	codec.Codec // nil
}

// NewFullCodec returns the model inside the engine and a real ProtoCodec natively (register
// gives the interface registrations the messages used by the harness need).
func NewFullCodec(register func(codectypes.InterfaceRegistry)) codec.Codec {
	if rt.Symbolic() {
		return FullCodec{}
	}
	reg := codectypes.NewInterfaceRegistry()
	if register != nil {
		register(reg)
	}
	return codec.NewProtoCodec(reg)
}

func (FullCodec) Marshal(o proto.Message) ([]byte, error) { return rt.MarshalOpaque(o), nil }
func (FullCodec) MustMarshal(o proto.Message) []byte      { return rt.MarshalOpaque(o) }
func (FullCodec) Unmarshal(bz []byte, ptr proto.Message) error {
	if !rt.UnmarshalOpaque(bz, ptr) {
		return errUnmarshal
	}
	return nil
}

func (FullCodec) MustUnmarshal(bz []byte, ptr proto.Message) {
	if !rt.UnmarshalOpaque(bz, ptr) {
		panic(errUnmarshal)
	}
}

func (FullCodec) UnpackAny(any *codectypes.Any, iface interface{}) error {
	if !rt.UnpackAnyOpaque(any, iface) {
		return errUnmarshal
	}
	return nil
}
