package models

import (
	"context"

	collcodec "cosmossdk.io/collections/codec"
	corestore "cosmossdk.io/core/store"
	storetypes "cosmossdk.io/store/types"
	"github.com/cosmos/cosmos-sdk/codec"
	sdk "github.com/cosmos/cosmos-sdk/types"
	"github.com/cosmos/gogoproto/proto"
)

// StoreService adapts a named store of the model multistore to the KVStoreService that
// cosmossdk.io/collections is built on (the collections code itself is executed from source).
type StoreService struct{ Key *StoreKey }

func NewStoreService(name string) StoreService { return StoreService{Key: NewStoreKey(name)} }

func (s StoreService) OpenKVStore(ctx context.Context) corestore.KVStore {
	return kvAdapter{sdk.UnwrapSDKContext(ctx).KVStore(s.Key)}
}

type kvAdapter struct{ st storetypes.KVStore }

func (a kvAdapter) Get(key []byte) ([]byte, error) { return a.st.Get(key), nil }
func (a kvAdapter) Has(key []byte) (bool, error)   { return a.st.Has(key), nil }
func (a kvAdapter) Set(key, value []byte) error    { a.st.Set(key, value); return nil }
func (a kvAdapter) Delete(key []byte) error        { a.st.Delete(key); return nil }
func (a kvAdapter) Iterator(start, end []byte) (corestore.Iterator, error) {
	return a.st.Iterator(start, end), nil
}

func (a kvAdapter) ReverseIterator(start, end []byte) (corestore.Iterator, error) {
	return a.st.ReverseIterator(start, end), nil
}

// protoPtr is a pointer to T that is a protobuf message.
type protoPtr[T any] interface {
	*T
	proto.Message
}

// CollValue is the collections value codec for protobuf messages over a BinaryCodec (what
// codec.CollValue does, without demanding the full codec.Codec interface).
func CollValue[T any, PT protoPtr[T]](cdc codec.BinaryCodec) collcodec.ValueCodec[T] {
	return collValue[T, PT]{cdc}
}

type collValue[T any, PT protoPtr[T]] struct{ cdc codec.BinaryCodec }

func (c collValue[T, PT]) Encode(value T) ([]byte, error) { return c.cdc.Marshal(PT(&value)) }

func (c collValue[T, PT]) Decode(b []byte) (T, error) {
	var v T
	err := c.cdc.Unmarshal(b, PT(&v))
	return v, err
}

func (c collValue[T, PT]) EncodeJSON(value T) ([]byte, error) {
	panic("models.CollValue: JSON not modelled")
}
func (c collValue[T, PT]) DecodeJSON(b []byte) (T, error) {
	panic("models.CollValue: JSON not modelled")
}
func (c collValue[T, PT]) Stringify(value T) string { return "value" }
func (c collValue[T, PT]) ValueType() string        { return "models.CollValue" }
