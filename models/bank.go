package models

import (
	"bytes"
	"context"
	"math/big"

	sdkmath "cosmossdk.io/math"
	sdk "github.com/cosmos/cosmos-sdk/types"
	banktypes "github.com/cosmos/cosmos-sdk/x/bank/types"
	"github.com/ethereum/go-ethereum/common"
)

// ModuleAddress derives a deterministic, collision-free (for distinct short names) 20-byte
// address for a module account name.
func ModuleAddress(name string) sdk.AccAddress {
	out := make([]byte, 20)
	out[0] = 0xee
	copy(out[1:], name)
	return out
}

type bankEntry struct {
	addr  []byte
	denom string
	amt   sdkmath.Int
}

type bankError string

func (e bankError) Error() string { return string(e) }

// Bank is the model of the bank keeper: per (account, denom) balances and per-denom supply over
// the integers; send/mint/burn with insufficient-funds errors; denom metadata.
type Bank struct {
	bal      []bankEntry
	supply   map[string]sdkmath.Int
	metas    []banktypes.Metadata
	Blocked  [][]byte
	FailNext bool // the next state-changing call fails without effect (fault injection)
	Ops      int  // number of state-changing calls that took effect
}

func NewBank() *Bank { return &Bank{supply: map[string]sdkmath.Int{}} }

func (b *Bank) find(addr []byte, denom string) int {
	for i := range b.bal {
		if b.bal[i].denom == denom && bytes.Equal(b.bal[i].addr, addr) {
			return i
		}
	}
	return -1
}

// Balance returns the balance of addr in denom.
func (b *Bank) Balance(addr []byte, denom string) sdkmath.Int {
	if i := b.find(addr, denom); i >= 0 {
		return b.bal[i].amt
	}
	return sdkmath.ZeroInt()
}

// SetBalance sets a balance and adjusts the supply accordingly (harness state construction).
func (b *Bank) SetBalance(addr []byte, denom string, amt sdkmath.Int) {
	old := b.Balance(addr, denom)
	b.set(addr, denom, amt)
	b.supply[denom] = b.Supply(denom).Add(amt).Sub(old)
}

func (b *Bank) set(addr []byte, denom string, amt sdkmath.Int) {
	if i := b.find(addr, denom); i >= 0 {
		b.bal[i].amt = amt
		return
	}
	b.bal = append(b.bal, bankEntry{addr: clone(addr), denom: denom, amt: amt})
}

func (b *Bank) Supply(denom string) sdkmath.Int {
	if s, ok := b.supply[denom]; ok {
		return s
	}
	return sdkmath.ZeroInt()
}

func (b *Bank) fail() bool {
	if b.FailNext {
		b.FailNext = false
		return true
	}
	return false
}

func (b *Bank) move(from, to []byte, amt sdk.Coins) error {
	if b.fail() {
		return bankError("bank: injected failure")
	}
	for _, c := range amt {
		if c.Amount.IsNegative() {
			return bankError("bank: negative amount")
		}
		if b.Balance(from, c.Denom).LT(c.Amount) {
			return bankError("bank: insufficient funds")
		}
	}
	for _, c := range amt {
		b.set(from, c.Denom, b.Balance(from, c.Denom).Sub(c.Amount))
		b.set(to, c.Denom, b.Balance(to, c.Denom).Add(c.Amount))
	}
	b.Ops++
	return nil
}

func (b *Bank) SendCoins(ctx context.Context, from, to sdk.AccAddress, amt sdk.Coins) error {
	return b.move(from, to, amt)
}

func (b *Bank) SendCoinsFromModuleToAccount(ctx context.Context, module string, to sdk.AccAddress, amt sdk.Coins) error {
	for _, blk := range b.Blocked {
		if bytes.Equal(blk, to) {
			return bankError("bank: blocked address")
		}
	}
	return b.move(ModuleAddress(module), to, amt)
}

func (b *Bank) SendCoinsFromAccountToModule(ctx context.Context, from sdk.AccAddress, module string, amt sdk.Coins) error {
	return b.move(from, ModuleAddress(module), amt)
}

func (b *Bank) SendCoinsFromModuleToModule(ctx context.Context, from, to string, amt sdk.Coins) error {
	return b.move(ModuleAddress(from), ModuleAddress(to), amt)
}

func (b *Bank) MintCoins(ctx context.Context, module string, amt sdk.Coins) error {
	if b.fail() {
		return bankError("bank: injected failure")
	}
	for _, c := range amt {
		if c.Amount.IsNegative() {
			return bankError("bank: negative amount")
		}
	}
	m := ModuleAddress(module)
	for _, c := range amt {
		b.set(m, c.Denom, b.Balance(m, c.Denom).Add(c.Amount))
		b.supply[c.Denom] = b.Supply(c.Denom).Add(c.Amount)
	}
	b.Ops++
	return nil
}

func (b *Bank) BurnCoins(ctx context.Context, module string, amt sdk.Coins) error {
	if b.fail() {
		return bankError("bank: injected failure")
	}
	m := ModuleAddress(module)
	for _, c := range amt {
		if c.Amount.IsNegative() {
			return bankError("bank: negative amount")
		}
		if b.Balance(m, c.Denom).LT(c.Amount) {
			return bankError("bank: insufficient funds")
		}
	}
	for _, c := range amt {
		b.set(m, c.Denom, b.Balance(m, c.Denom).Sub(c.Amount))
		b.supply[c.Denom] = b.Supply(c.Denom).Sub(c.Amount)
	}
	b.Ops++
	return nil
}

func (b *Bank) GetBalance(ctx context.Context, addr sdk.AccAddress, denom string) sdk.Coin {
	return sdk.Coin{Denom: denom, Amount: b.Balance(addr, denom)}
}

func (b *Bank) GetAllBalances(ctx context.Context, addr sdk.AccAddress) sdk.Coins {
	var out sdk.Coins
	for _, e := range b.bal {
		if bytes.Equal(e.addr, addr) && e.amt.IsPositive() {
			out = append(out, sdk.Coin{Denom: e.denom, Amount: e.amt})
		}
	}
	return out.Sort()
}

func (b *Bank) SpendableCoins(ctx context.Context, addr sdk.AccAddress) sdk.Coins {
	return b.GetAllBalances(ctx, addr)
}

func (b *Bank) GetSupply(ctx context.Context, denom string) sdk.Coin {
	return sdk.Coin{Denom: denom, Amount: b.Supply(denom)}
}

func (b *Bank) IsSendEnabledCoin(ctx context.Context, coin sdk.Coin) bool       { return true }
func (b *Bank) IsSendEnabledCoins(ctx context.Context, coins ...sdk.Coin) error { return nil }

func (b *Bank) BlockedAddr(addr sdk.AccAddress) bool {
	for _, blk := range b.Blocked {
		if bytes.Equal(blk, addr) {
			return true
		}
	}
	return false
}

func (b *Bank) GetDenomMetaData(ctx context.Context, denom string) (banktypes.Metadata, bool) {
	for _, m := range b.metas {
		if m.Base == denom {
			return m, true
		}
	}
	return banktypes.Metadata{}, false
}

func (b *Bank) HasDenomMetaData(ctx context.Context, denom string) bool {
	_, ok := b.GetDenomMetaData(ctx, denom)
	return ok
}

func (b *Bank) SetDenomMetaData(ctx context.Context, md banktypes.Metadata) {
	for i, m := range b.metas {
		if m.Base == md.Base {
			b.metas[i] = md
			b.Ops++
			return
		}
	}
	b.metas = append(b.metas, md)
	b.Ops++
}

func (b *Bank) IterateAllDenomMetaData(ctx context.Context, cb func(banktypes.Metadata) bool) {
	for _, m := range b.metas {
		if cb(m) {
			return
		}
	}
}

// ---------------------------------------------------------------------------------------------
// ERC-20 token ledger (the contract side as seen through the keeper-level ERC20 calls)

type erc20Entry struct {
	contract, holder common.Address
	amt              *big.Int
}

// Erc20 models EvmERC20Keeper: balances and total supply per contract.
type Erc20 struct {
	bal      []erc20Entry
	supply   []erc20Entry // holder unused
	FailNext bool
	Ops      int
	Decimals uint8
}

func NewErc20() *Erc20 { return &Erc20{Decimals: 18} }

func (t *Erc20) find(contract, holder common.Address) int {
	for i := range t.bal {
		if t.bal[i].contract == contract && t.bal[i].holder == holder {
			return i
		}
	}
	return -1
}

func (t *Erc20) BalanceOf(contract, holder common.Address) *big.Int {
	if i := t.find(contract, holder); i >= 0 {
		return new(big.Int).Set(t.bal[i].amt)
	}
	return new(big.Int)
}

func (t *Erc20) TotalSupply(contract common.Address) *big.Int {
	for i := range t.supply {
		if t.supply[i].contract == contract {
			return new(big.Int).Set(t.supply[i].amt)
		}
	}
	return new(big.Int)
}

func (t *Erc20) setBal(contract, holder common.Address, amt *big.Int) {
	if i := t.find(contract, holder); i >= 0 {
		t.bal[i].amt = amt
		return
	}
	t.bal = append(t.bal, erc20Entry{contract, holder, amt})
}

func (t *Erc20) setSupply(contract common.Address, amt *big.Int) {
	for i := range t.supply {
		if t.supply[i].contract == contract {
			t.supply[i].amt = amt
			return
		}
	}
	t.supply = append(t.supply, erc20Entry{contract: contract, amt: amt})
}

// SetBalance sets a holder's balance adjusting total supply (state construction).
func (t *Erc20) SetBalance(contract, holder common.Address, amt *big.Int) {
	old := t.BalanceOf(contract, holder)
	t.setBal(contract, holder, new(big.Int).Set(amt))
	s := t.TotalSupply(contract)
	s.Add(s, amt)
	s.Sub(s, old)
	t.setSupply(contract, s)
}

func (t *Erc20) fail() bool {
	if t.FailNext {
		t.FailNext = false
		return true
	}
	return false
}

func (t *Erc20) ERC20Name(ctx context.Context, c common.Address) (string, error)   { return "Token", nil }
func (t *Erc20) ERC20Symbol(ctx context.Context, c common.Address) (string, error) { return "TKN", nil }
func (t *Erc20) ERC20Decimals(ctx context.Context, c common.Address) (uint8, error) {
	return t.Decimals, nil
}

func (t *Erc20) ERC20Mint(ctx context.Context, contract, from, receiver common.Address, amount *big.Int) error {
	if t.fail() {
		return bankError("erc20: injected failure")
	}
	if amount.Sign() < 0 {
		return bankError("erc20: negative amount")
	}
	t.setBal(contract, receiver, new(big.Int).Add(t.BalanceOf(contract, receiver), amount))
	t.setSupply(contract, new(big.Int).Add(t.TotalSupply(contract), amount))
	t.Ops++
	return nil
}

func (t *Erc20) ERC20Burn(ctx context.Context, contract, from, account common.Address, amount *big.Int) error {
	if t.fail() {
		return bankError("erc20: injected failure")
	}
	if amount.Sign() < 0 || t.BalanceOf(contract, account).Cmp(amount) < 0 {
		return bankError("erc20: burn amount exceeds balance")
	}
	t.setBal(contract, account, new(big.Int).Sub(t.BalanceOf(contract, account), amount))
	t.setSupply(contract, new(big.Int).Sub(t.TotalSupply(contract), amount))
	t.Ops++
	return nil
}

func (t *Erc20) ERC20Transfer(ctx context.Context, contract, from, receiver common.Address, amount *big.Int) error {
	if t.fail() {
		return bankError("erc20: injected failure")
	}
	if amount.Sign() < 0 || t.BalanceOf(contract, from).Cmp(amount) < 0 {
		return bankError("erc20: transfer amount exceeds balance")
	}
	t.setBal(contract, from, new(big.Int).Sub(t.BalanceOf(contract, from), amount))
	t.setBal(contract, receiver, new(big.Int).Add(t.BalanceOf(contract, receiver), amount))
	t.Ops++
	return nil
}
