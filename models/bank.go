package models

import (
	"bytes"
	"context"
	authtypes "github.com/cosmos/cosmos-sdk/x/auth/types"
	"math/big"

	sdkmath "cosmossdk.io/math"
	sdk "github.com/cosmos/cosmos-sdk/types"
	banktypes "github.com/cosmos/cosmos-sdk/x/bank/types"
	"github.com/ethereum/go-ethereum/common"
)

// ModuleAddress derives a deterministic, collision-free (for distinct short names) 20-byte
// address for a module account name.
func ModuleAddress(name string) sdk.AccAddress {
	// the real derivation, so that code which asks authtypes.NewModuleAddress itself meets the
	// same account as code that goes through the account keeper
	return authtypes.NewModuleAddress(name)
}

type bankEntry struct {
	addr  []byte
	denom string
	amt   sdkmath.Int
}

type bankError string

func (e bankError) Error() string { return string(e) }

// Bank is the model of the bank keeper: per (account, denom) balances and per-denom supply over
// the integers; send/mint/burn with insufficient-funds errors; denom metadata.
type Bank struct {
	root     *MultiStore
	Blocked  [][]byte
	FailNext bool // the next state-changing call fails without effect (fault injection)
}

// bankState is the part of the bank model that branches and commits with the multistore.
type bankState struct {
	bal    []bankEntry
	supply map[string]sdkmath.Int
	metas  []banktypes.Metadata
	ops    int // number of state-changing calls that took effect
}

func (s *bankState) CopySide() Sidecar {
	c := &bankState{supply: map[string]sdkmath.Int{}, ops: s.ops}
	c.bal = append(c.bal, s.bal...)
	c.metas = append(c.metas, s.metas...)
	for k, v := range s.supply {
		c.supply[k] = v
	}
	return c
}

// NewBank attaches a bank model to the multistore: its balances branch and commit with it.
func NewBank(ms *MultiStore) *Bank {
	ms.SetSide("bank", &bankState{supply: map[string]sdkmath.Int{}})
	return &Bank{root: ms}
}

// state selects the branch the call with ctx runs on.
func (b *Bank) state(ctx context.Context) *bankState {
	ms, ok := sdk.UnwrapSDKContext(ctx).MultiStore().(*MultiStore)
	if !ok {
		panic("models.Bank: context without model multistore")
	}
	return ms.Side("bank").(*bankState)
}

func (b *Bank) rootState() *bankState { return b.root.Side("bank").(*bankState) }

// Ops returns the number of committed state-changing calls.
func (b *Bank) Ops() int { return b.rootState().ops }

func (st *bankState) find(addr []byte, denom string) int {
	for i := range st.bal {
		if st.bal[i].denom == denom && bytes.Equal(st.bal[i].addr, addr) {
			return i
		}
	}
	return -1
}

func (st *bankState) balance(addr []byte, denom string) sdkmath.Int {
	if i := st.find(addr, denom); i >= 0 {
		return st.bal[i].amt
	}
	return sdkmath.ZeroInt()
}

func (st *bankState) set(addr []byte, denom string, amt sdkmath.Int) {
	if i := st.find(addr, denom); i >= 0 {
		st.bal[i].amt = amt
		return
	}
	st.bal = append(st.bal, bankEntry{addr: clone(addr), denom: denom, amt: amt})
}

func (st *bankState) supplyOf(denom string) sdkmath.Int {
	if s, ok := st.supply[denom]; ok {
		return s
	}
	return sdkmath.ZeroInt()
}

// Balance returns the committed balance of addr in denom.
func (b *Bank) Balance(addr []byte, denom string) sdkmath.Int {
	return b.rootState().balance(addr, denom)
}

// Supply returns the committed supply of denom.
func (b *Bank) Supply(denom string) sdkmath.Int { return b.rootState().supplyOf(denom) }

// SetBalance sets a committed balance and adjusts the supply accordingly (harness state construction).
func (b *Bank) SetBalance(addr []byte, denom string, amt sdkmath.Int) {
	st := b.rootState()
	old := st.balance(addr, denom)
	st.set(addr, denom, amt)
	st.supply[denom] = st.supplyOf(denom).Add(amt).Sub(old)
}

func (b *Bank) fail() bool {
	if b.FailNext {
		b.FailNext = false
		return true
	}
	return false
}

func (b *Bank) move(st *bankState, from, to []byte, amt sdk.Coins) error {
	if b.fail() {
		return bankError("bank: injected failure")
	}
	for _, c := range amt {
		if c.Amount.IsNegative() {
			return bankError("bank: negative amount")
		}
		if st.balance(from, c.Denom).LT(c.Amount) {
			return bankError("bank: insufficient funds")
		}
	}
	for _, c := range amt {
		st.set(from, c.Denom, st.balance(from, c.Denom).Sub(c.Amount))
		st.set(to, c.Denom, st.balance(to, c.Denom).Add(c.Amount))
	}
	st.ops++
	return nil
}

func (b *Bank) SendCoins(ctx context.Context, from, to sdk.AccAddress, amt sdk.Coins) error {
	return b.move(b.state(ctx), from, to, amt)
}

func (b *Bank) SendCoinsFromModuleToAccount(ctx context.Context, module string, to sdk.AccAddress, amt sdk.Coins) error {
	for _, blk := range b.Blocked {
		if bytes.Equal(blk, to) {
			return bankError("bank: blocked address")
		}
	}
	return b.move(b.state(ctx), ModuleAddress(module), to, amt)
}

func (b *Bank) SendCoinsFromAccountToModule(ctx context.Context, from sdk.AccAddress, module string, amt sdk.Coins) error {
	return b.move(b.state(ctx), from, ModuleAddress(module), amt)
}

func (b *Bank) SendCoinsFromModuleToModule(ctx context.Context, from, to string, amt sdk.Coins) error {
	return b.move(b.state(ctx), ModuleAddress(from), ModuleAddress(to), amt)
}

func (b *Bank) MintCoins(ctx context.Context, module string, amt sdk.Coins) error {
	if b.fail() {
		return bankError("bank: injected failure")
	}
	for _, c := range amt {
		if c.Amount.IsNegative() {
			return bankError("bank: negative amount")
		}
	}
	st := b.state(ctx)
	m := ModuleAddress(module)
	for _, c := range amt {
		st.set(m, c.Denom, st.balance(m, c.Denom).Add(c.Amount))
		st.supply[c.Denom] = st.supplyOf(c.Denom).Add(c.Amount)
	}
	st.ops++
	return nil
}

func (b *Bank) BurnCoins(ctx context.Context, module string, amt sdk.Coins) error {
	if b.fail() {
		return bankError("bank: injected failure")
	}
	st := b.state(ctx)
	m := ModuleAddress(module)
	for _, c := range amt {
		if c.Amount.IsNegative() {
			return bankError("bank: negative amount")
		}
		if st.balance(m, c.Denom).LT(c.Amount) {
			return bankError("bank: insufficient funds")
		}
	}
	for _, c := range amt {
		st.set(m, c.Denom, st.balance(m, c.Denom).Sub(c.Amount))
		st.supply[c.Denom] = st.supplyOf(c.Denom).Sub(c.Amount)
	}
	st.ops++
	return nil
}

func (b *Bank) GetBalance(ctx context.Context, addr sdk.AccAddress, denom string) sdk.Coin {
	return sdk.Coin{Denom: denom, Amount: b.state(ctx).balance(addr, denom)}
}

func (b *Bank) GetAllBalances(ctx context.Context, addr sdk.AccAddress) sdk.Coins {
	var out sdk.Coins
	for _, e := range b.state(ctx).bal {
		if bytes.Equal(e.addr, addr) && e.amt.IsPositive() {
			out = append(out, sdk.Coin{Denom: e.denom, Amount: e.amt})
		}
	}
	return out.Sort()
}

func (b *Bank) SpendableCoins(ctx context.Context, addr sdk.AccAddress) sdk.Coins {
	return b.GetAllBalances(ctx, addr)
}

func (b *Bank) GetSupply(ctx context.Context, denom string) sdk.Coin {
	return sdk.Coin{Denom: denom, Amount: b.state(ctx).supplyOf(denom)}
}

func (b *Bank) IsSendEnabledCoin(ctx context.Context, coin sdk.Coin) bool       { return true }
func (b *Bank) IsSendEnabledCoins(ctx context.Context, coins ...sdk.Coin) error { return nil }

func (b *Bank) BlockedAddr(addr sdk.AccAddress) bool {
	for _, blk := range b.Blocked {
		if bytes.Equal(blk, addr) {
			return true
		}
	}
	return false
}

func (b *Bank) GetDenomMetaData(ctx context.Context, denom string) (banktypes.Metadata, bool) {
	for _, m := range b.state(ctx).metas {
		if m.Base == denom {
			return m, true
		}
	}
	return banktypes.Metadata{}, false
}

func (b *Bank) HasDenomMetaData(ctx context.Context, denom string) bool {
	_, ok := b.GetDenomMetaData(ctx, denom)
	return ok
}

func (b *Bank) SetDenomMetaData(ctx context.Context, md banktypes.Metadata) {
	st := b.state(ctx)
	st.ops++
	for i, m := range st.metas {
		if m.Base == md.Base {
			st.metas[i] = md
			return
		}
	}
	st.metas = append(st.metas, md)
}

func (b *Bank) IterateAllDenomMetaData(ctx context.Context, cb func(banktypes.Metadata) bool) {
	for _, m := range b.state(ctx).metas {
		if cb(m) {
			return
		}
	}
}

// ---------------------------------------------------------------------------------------------
// ERC-20 token ledger (the contract side as seen through the keeper-level ERC20 calls)

type erc20Entry struct {
	contract, holder common.Address
	amt              *big.Int
}

// Erc20 models EvmERC20Keeper: balances and total supply per contract.
type Erc20 struct {
	root     *MultiStore
	FailNext bool
	Decimals uint8
}

type erc20State struct {
	bal    []erc20Entry
	supply []erc20Entry // holder unused
	ops    int
}

func (s *erc20State) CopySide() Sidecar {
	c := &erc20State{ops: s.ops}
	c.bal = append(c.bal, s.bal...)
	c.supply = append(c.supply, s.supply...)
	return c
}

// NewErc20 attaches a token ledger to the multistore (it branches and commits with it).
func NewErc20(ms *MultiStore) *Erc20 {
	ms.SetSide("erc20", &erc20State{})
	return &Erc20{root: ms, Decimals: 18}
}

func (t *Erc20) state(ctx context.Context) *erc20State {
	ms, ok := sdk.UnwrapSDKContext(ctx).MultiStore().(*MultiStore)
	if !ok {
		panic("models.Erc20: context without model multistore")
	}
	return ms.Side("erc20").(*erc20State)
}

func (t *Erc20) rootState() *erc20State { return t.root.Side("erc20").(*erc20State) }

// Ops returns the number of committed state-changing calls.
func (t *Erc20) Ops() int { return t.rootState().ops }

// BalanceOf / TotalSupply / SetBalance work on the committed state (harness side).
func (t *Erc20) BalanceOf(contract, holder common.Address) *big.Int {
	return t.rootState().BalanceOf(contract, holder)
}
func (t *Erc20) TotalSupply(contract common.Address) *big.Int {
	return t.rootState().TotalSupply(contract)
}
func (t *Erc20) SetBalance(contract, holder common.Address, amt *big.Int) {
	t.rootState().SetBalance(contract, holder, amt)
}

func (t *erc20State) find(contract, holder common.Address) int {
	for i := range t.bal {
		if t.bal[i].contract == contract && t.bal[i].holder == holder {
			return i
		}
	}
	return -1
}

func (t *erc20State) BalanceOf(contract, holder common.Address) *big.Int {
	if i := t.find(contract, holder); i >= 0 {
		return new(big.Int).Set(t.bal[i].amt)
	}
	return new(big.Int)
}

func (t *erc20State) TotalSupply(contract common.Address) *big.Int {
	for i := range t.supply {
		if t.supply[i].contract == contract {
			return new(big.Int).Set(t.supply[i].amt)
		}
	}
	return new(big.Int)
}

func (t *erc20State) setBal(contract, holder common.Address, amt *big.Int) {
	if i := t.find(contract, holder); i >= 0 {
		t.bal[i].amt = amt
		return
	}
	t.bal = append(t.bal, erc20Entry{contract, holder, amt})
}

func (t *erc20State) setSupply(contract common.Address, amt *big.Int) {
	for i := range t.supply {
		if t.supply[i].contract == contract {
			t.supply[i].amt = amt
			return
		}
	}
	t.supply = append(t.supply, erc20Entry{contract: contract, amt: amt})
}

// SetBalance sets a holder's balance adjusting total supply (state construction).
func (t *erc20State) SetBalance(contract, holder common.Address, amt *big.Int) {
	old := t.BalanceOf(contract, holder)
	t.setBal(contract, holder, new(big.Int).Set(amt))
	s := t.TotalSupply(contract)
	s.Add(s, amt)
	s.Sub(s, old)
	t.setSupply(contract, s)
}

func (t *Erc20) fail() bool {
	if t.FailNext {
		t.FailNext = false
		return true
	}
	return false
}

func (t *Erc20) ERC20Name(ctx context.Context, c common.Address) (string, error)   { return "Token", nil }
func (t *Erc20) ERC20Symbol(ctx context.Context, c common.Address) (string, error) { return "TKN", nil }
func (t *Erc20) ERC20Decimals(ctx context.Context, c common.Address) (uint8, error) {
	return t.Decimals, nil
}

func (t *Erc20) ERC20Mint(ctx context.Context, contract, from, receiver common.Address, amount *big.Int) error {
	if t.fail() {
		return bankError("erc20: injected failure")
	}
	if amount.Sign() < 0 {
		return bankError("erc20: negative amount")
	}
	st := t.state(ctx)
	st.setBal(contract, receiver, new(big.Int).Add(st.BalanceOf(contract, receiver), amount))
	st.setSupply(contract, new(big.Int).Add(st.TotalSupply(contract), amount))
	st.ops++
	return nil
}

func (t *Erc20) ERC20Burn(ctx context.Context, contract, from, account common.Address, amount *big.Int) error {
	if t.fail() {
		return bankError("erc20: injected failure")
	}
	st := t.state(ctx)
	if amount.Sign() < 0 || st.BalanceOf(contract, account).Cmp(amount) < 0 {
		return bankError("erc20: burn amount exceeds balance")
	}
	st.setBal(contract, account, new(big.Int).Sub(st.BalanceOf(contract, account), amount))
	st.setSupply(contract, new(big.Int).Sub(st.TotalSupply(contract), amount))
	st.ops++
	return nil
}

func (t *Erc20) ERC20Transfer(ctx context.Context, contract, from, receiver common.Address, amount *big.Int) error {
	if t.fail() {
		return bankError("erc20: injected failure")
	}
	st := t.state(ctx)
	if amount.Sign() < 0 || st.BalanceOf(contract, from).Cmp(amount) < 0 {
		return bankError("erc20: transfer amount exceeds balance")
	}
	st.setBal(contract, from, new(big.Int).Sub(st.BalanceOf(contract, from), amount))
	st.setBal(contract, receiver, new(big.Int).Add(st.BalanceOf(contract, receiver), amount))
	st.ops++
	return nil
}

// LockedCoins: no vesting accounts in the model.
func (b *Bank) LockedCoins(ctx context.Context, addr sdk.AccAddress) sdk.Coins { return sdk.Coins{} }
