package models

import (
	sdk "github.com/cosmos/cosmos-sdk/types"
	"github.com/ethereum/go-ethereum/common"
	ethtypes "github.com/ethereum/go-ethereum/core/types"
	"github.com/ethereum/go-ethereum/core/vm"
	"github.com/evmos/ethermint/x/evm/statedb"
)

// StateDB models the ethermint state DB as far as stateful precompiles use it: logs and
// ExecuteNativeAction (snapshot the native state, run the action on a cache context, commit it
// only if the action returns nil).
type StateDB struct {
	vm.StateDB // nil: unmodelled methods panic
	Ctx        sdk.Context
	Logs       []*ethtypes.Log
	Depth      int // > 0 while inside ExecuteNativeAction
	Actions    int
	OnRevert   func() // restores model state that lives outside the multistore (bank, ledgers)
	TakeSnap   func() // takes that snapshot
}

func NewStateDB(ctx sdk.Context) *StateDB { return &StateDB{Ctx: ctx} }

func (s *StateDB) AddLog(l *ethtypes.Log) { s.Logs = append(s.Logs, l) }

func (s *StateDB) Context() sdk.Context { return s.Ctx }

func (s *StateDB) ExecuteNativeAction(contract common.Address, converter statedb.EventConverter, action func(ctx sdk.Context) error) error {
	s.Actions++
	if s.TakeSnap != nil {
		s.TakeSnap()
	}
	nLogs := len(s.Logs)
	cacheCtx, write := s.Ctx.CacheContext()
	s.Depth++
	err := action(cacheCtx)
	s.Depth--
	if err != nil {
		s.Logs = s.Logs[:nLogs]
		if s.OnRevert != nil {
			s.OnRevert()
		}
		return err
	}
	write()
	return nil
}
