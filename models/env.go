package models

import (
	"time"

	"cosmossdk.io/log"
	storetypes "cosmossdk.io/store/types"
	tmproto "github.com/cometbft/cometbft/proto/tendermint/types"
	sdk "github.com/cosmos/cosmos-sdk/types"
)

// NopLogger discards everything.
type NopLogger struct{}

func (NopLogger) Info(string, ...any)      {}
func (NopLogger) Warn(string, ...any)      {}
func (NopLogger) Error(string, ...any)     {}
func (NopLogger) Debug(string, ...any)     {}
func (l NopLogger) With(...any) log.Logger { return l }
func (NopLogger) Impl() any                { return nil }

var _ log.Logger = NopLogger{}

// NewContext builds an sdk.Context over the model multistore at the given height / unix time.
func NewContext(ms *MultiStore, height int64, unixSec int64) sdk.Context {
	header := tmproto.Header{Height: height, Time: time.Unix(unixSec, 0).UTC()}
	return sdk.NewContext(ms, header, false, NopLogger{}).WithGasMeter(storetypes.NewInfiniteGasMeter())
}
