package models

import (
	"context"
	"math/big"

	sdk "github.com/cosmos/cosmos-sdk/types"
	"github.com/ethereum/go-ethereum/accounts/abi"
	"github.com/ethereum/go-ethereum/common"
	"github.com/evmos/ethermint/x/evm/statedb"
	evmtypes "github.com/evmos/ethermint/x/evm/types"
)

// EVM models the EVM keeper as seen by erc20 / crosschain: which addresses are contracts,
// deployments, and opaque calls that may fail.
type EVM struct {
	Contracts  []common.Address
	deployed   int
	CallFails  bool   // CallEVM returns an error
	CallVmErr  bool   // CallEVM returns a response with VmError set
	VmErrText  string // the VM error text (default: execution reverted)
	Calls      int
	BeforeCall func(ctx sdk.Context) // invoked at the start of every CallEVM (to model writes made before a failure)
}

func NewEVM(contracts ...common.Address) *EVM { return &EVM{Contracts: contracts} }

func (e *EVM) IsContract(ctx sdk.Context, a common.Address) bool {
	for _, c := range e.Contracts {
		if c == a {
			return true
		}
	}
	return false
}

func (e *EVM) GetAccount(ctx sdk.Context, a common.Address) *statedb.Account {
	if e.IsContract(ctx, a) {
		return &statedb.Account{Nonce: 1, CodeHash: []byte{0xc0, 0xde}}
	}
	return nil
}

func (e *EVM) DeployUpgradableContract(ctx sdk.Context, from, logic common.Address, logicData []byte, initializeAbi *abi.ABI, initializeArgs ...interface{}) (common.Address, error) {
	e.deployed++
	var a common.Address
	a[0] = 0xdd
	a[19] = byte(e.deployed)
	e.Contracts = append(e.Contracts, a)
	return a, nil
}

func (e *EVM) CallEVM(ctx sdk.Context, from common.Address, contract *common.Address, value *big.Int, gasLimit uint64, data []byte, commit bool) (*evmtypes.MsgEthereumTxResponse, error) {
	e.Calls++
	if e.BeforeCall != nil {
		e.BeforeCall(ctx)
	}
	if e.CallFails {
		return nil, bankError("evm: call failed")
	}
	if e.CallVmErr {
		if e.VmErrText != "" {
			return &evmtypes.MsgEthereumTxResponse{VmError: e.VmErrText}, nil
		}
		return &evmtypes.MsgEthereumTxResponse{VmError: "execution reverted"}, nil
	}
	return &evmtypes.MsgEthereumTxResponse{}, nil
}

// Accounts models the auth account keeper: module addresses only.
type Accounts struct{}

func (Accounts) GetModuleAddress(name string) sdk.AccAddress { return ModuleAddress(name) }
func (Accounts) GetAccount(ctx context.Context, addr sdk.AccAddress) sdk.AccountI {
	return nil
}
func (Accounts) SetAccount(ctx context.Context, acc sdk.AccountI) {}
func (Accounts) GetModuleAccount(ctx context.Context, moduleName string) sdk.ModuleAccountI {
	return nil
}
func (Accounts) NewAccountWithAddress(ctx context.Context, addr sdk.AccAddress) sdk.AccountI {
	return nil
}
